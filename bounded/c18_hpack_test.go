package hpack

// BOUNDED stand-in for the parts of C18 that are relational (encoder/decoder round trip, independence of the
// fragmentation) or need bit-vector reasoning over variable shifts (varint value, Huffman code walk), which the
// contracts in verif_contracts.go do not carry. It drives the REAL codec (injected into package hpack with
// `go test -overlay`) against an independently written RFC 7541 reference decoder:
//   1. integers: appendVarInt/readVarInt round trip for every prefix size and a boundary value set, every proper
//      prefix answers need-more, over-long encodings are rejected without panic;
//   2. Huffman: every byte string of length <= 2 as decoder input against a bit-by-bit reference (padding / EOS
//      rules), every string of length <= 2 plus random strings round trip;
//   3. decoder: enumerated and random byte strings (raw, encoder output, mutated encoder output) give the fields /
//      rejection of the reference, the same under every 2-way cut and random multi-way cuts, with the dynamic table
//      within the permitted size after every Write, no panic;
//   4. encoder -> decoder over random schedules of header lists and table-size changes: same fields in the same
//      order, sensitivity preserved, dynamic tables identical after every block.
// Labelled bounded in the evidence; never counted as proved.

import (
	"bytes"
	"encoding/json"
	"fmt"
	"math/rand"
	"os"
	"strconv"
	"testing"
)

// ---------- reference decoder (RFC 7541), written against the RFC, not against hpack.go ----------

type vrefDec struct {
	table     []HeaderField // newest first
	size      uint32
	maxSize   uint32
	allowed   uint32
	maxStrLen int

	unspecified bool
}

var vrefHuff map[[2]uint32]int // (len, code) -> symbol, 256 = EOS

func vrefInit() {
	if vrefHuff != nil {
		return
	}
	vrefHuff = map[[2]uint32]int{}
	for s, c := range huffmanCodes {
		vrefHuff[[2]uint32{uint32(huffmanCodeLen[s]), c}] = s
	}
	vrefHuff[[2]uint32{30, 0x3fffffff}] = 256
}

// vrefHuffDecode: nil result = error
func vrefHuffDecode(v []byte, maxLen int) ([]byte, bool) {
	vrefInit()
	out := []byte{}
	var code uint32
	var n uint32
	for _, b := range v {
		for i := 7; i >= 0; i-- {
			code = code<<1 | uint32(b>>uint(i)&1)
			n++
			if s, ok := vrefHuff[[2]uint32{n, code}]; ok {
				if s == 256 {
					return nil, false // EOS inside the string
				}
				if maxLen != 0 && len(out) == maxLen {
					return nil, false
				}
				out = append(out, byte(s))
				code, n = 0, 0
			}
			if n > 30 {
				return nil, false
			}
		}
	}
	// padding: strictly fewer than 8 bits, all ones
	if n > 7 || code != (1<<n)-1 {
		return nil, false
	}
	return out, true
}

// varint per RFC 7541 5.1; ok=false: malformed (too large for this implementation); need=true: truncated
func vrefVarint(n uint, p []byte) (v uint64, rest []byte, need bool, ok bool) {
	if len(p) == 0 {
		return 0, p, true, true
	}
	k := uint64(1)<<n - 1
	v = uint64(p[0]) & k
	if v < k {
		return v, p[1:], false, true
	}
	p = p[1:]
	var m uint
	for len(p) > 0 {
		b := p[0]
		p = p[1:]
		v += uint64(b&127) << m
		if b&128 == 0 {
			return v, p, false, true
		}
		m += 7
		if m >= 63 {
			return 0, nil, false, false
		}
	}
	return 0, nil, true, true
}

func (r *vrefDec) at(i uint64) (HeaderField, bool) {
	if i == 0 {
		return HeaderField{}, false
	}
	if i <= uint64(len(staticTable.ents)) {
		return staticTable.ents[i-1], true
	}
	j := i - uint64(len(staticTable.ents))
	if j > uint64(len(r.table)) {
		return HeaderField{}, false
	}
	return r.table[j-1], true
}

func (r *vrefDec) evict() {
	for r.size > r.maxSize && len(r.table) > 0 {
		last := r.table[len(r.table)-1]
		r.size -= uint32(len(last.Name) + len(last.Value) + 32)
		r.table = r.table[:len(r.table)-1]
	}
}

func (r *vrefDec) add(f HeaderField) {
	r.table = append([]HeaderField{f}, r.table...)
	r.size += uint32(len(f.Name) + len(f.Value) + 32)
	r.evict()
}

func (r *vrefDec) str(p []byte) (s string, rest []byte, need bool, ok bool) {
	if len(p) == 0 {
		return "", nil, true, true
	}
	huff := p[0]&128 != 0
	l, p, need, ok := vrefVarint(7, p)
	if !ok || need {
		return "", nil, need, ok
	}
	if r.maxStrLen != 0 && l > uint64(r.maxStrLen) {
		return "", nil, false, false
	}
	if uint64(len(p)) < l {
		return "", nil, true, true
	}
	raw := p[:l]
	if huff {
		d, ok := vrefHuffDecode(raw, r.maxStrLen)
		if !ok {
			return "", nil, false, false
		}
		return string(d), p[l:], false, true
	}
	return string(raw), p[l:], false, true
}

// decode a whole block; ok=false: the block must be rejected (malformed or truncated). r.unspecified is set when
// the block contains a size update after a field representation: RFC 7541 4.2 puts that MUST on the encoder and
// does not say what a decoder does with it (the code under test applies it when its table is empty and rejects
// otherwise), so such blocks are compared across fragmentations only, not against this reference.
func (r *vrefDec) decode(block []byte) (out []HeaderField, ok bool) {
	p := block
	fieldSeen := false
	for len(p) > 0 {
		b := p[0]
		switch {
		case b&128 != 0:
			idx, rest, need, ok := vrefVarint(7, p)
			if !ok || need {
				return out, false
			}
			hf, found := r.at(idx)
			if !found {
				return out, false
			}
			if r.maxStrLen != 0 && (len(hf.Name) > r.maxStrLen || len(hf.Value) > r.maxStrLen) {
				return out, false
			}
			out = append(out, HeaderField{Name: hf.Name, Value: hf.Value})
			p = rest
			fieldSeen = true
		case b&192 == 64, b&240 == 0, b&240 == 16:
			n := uint(4)
			if b&192 == 64 {
				n = 6
			}
			idx, rest, need, ok := vrefVarint(n, p)
			if !ok || need {
				return out, false
			}
			var hf HeaderField
			if idx > 0 {
				e, found := r.at(idx)
				if !found {
					return out, false
				}
				hf.Name = e.Name
			} else {
				var s string
				s, rest, need, ok = r.str(rest)
				if !ok || need {
					return out, false
				}
				hf.Name = s
			}
			var v string
			v, rest, need, ok = r.str(rest)
			if !ok || need {
				return out, false
			}
			hf.Value = v
			if b&192 == 64 {
				r.add(hf)
			}
			hf.Sensitive = b&240 == 16
			if r.maxStrLen != 0 && (len(hf.Name) > r.maxStrLen || len(hf.Value) > r.maxStrLen) {
				return out, false
			}
			out = append(out, hf)
			p = rest
			fieldSeen = true
		case b&224 == 32:
			// RFC 7541 4.2: size updates occur at the beginning of a header block (there may be two of them)
			if fieldSeen {
				r.unspecified = true
				return out, false
			}
			sz, rest, need, ok := vrefVarint(5, p)
			if !ok || need {
				return out, false
			}
			if sz > uint64(r.allowed) {
				return out, false
			}
			r.maxSize = uint32(sz)
			r.evict()
			p = rest
		default:
			return out, false
		}
	}
	return out, true
}

// ---------- driving the real decoder ----------

type vrunResult struct {
	fields []HeaderField
	failed bool
	table  []HeaderField // newest first
	size   uint32
	max    uint32
}

func vrunReal(mk func(emit func(HeaderField)) *Decoder, cuts []int, block []byte) (res vrunResult, panicked interface{}) {
	defer func() {
		if r := recover(); r != nil {
			panicked = r
		}
	}()
	var d *Decoder
	d = mk(func(f HeaderField) { res.fields = append(res.fields, f) })
	prev := 0
	check := func() {
		if d.dynTab.size > d.dynTab.maxSize {
			panic(fmt.Sprintf("dynamic table size %d above the permitted %d", d.dynTab.size, d.dynTab.maxSize))
		}
		var sum uint32
		for _, e := range d.dynTab.table.ents {
			sum += e.Size()
		}
		if sum != d.dynTab.size {
			panic(fmt.Sprintf("dynamic table size field %d, entries sum to %d", d.dynTab.size, sum))
		}
	}
	for _, c := range append(append([]int{}, cuts...), len(block)) {
		if c < prev || c > len(block) {
			continue
		}
		frag := append([]byte{}, block[prev:c]...) // own copy: the decoder must not rely on the caller's buffer
		prev = c
		_, err := d.Write(frag)
		for i := range frag {
			frag[i] = 0xAA // the caller may reuse its buffer after Write returns
		}
		check()
		if err != nil {
			res.failed = true
			break
		}
	}
	if !res.failed {
		if err := d.Close(); err != nil {
			res.failed = true
		}
	}
	ents := d.dynTab.table.ents
	for i := len(ents) - 1; i >= 0; i-- {
		res.table = append(res.table, ents[i])
	}
	res.size, res.max = d.dynTab.size, d.dynTab.maxSize
	return
}

func vsameFields(a, b []HeaderField) bool {
	if len(a) != len(b) {
		return false
	}
	for i := range a {
		if a[i] != b[i] {
			return false
		}
	}
	return true
}

type vcfg struct {
	name    string
	maxTab  uint32
	maxStr  int
	preload []HeaderField
}

func (c vcfg) mkReal(emit func(HeaderField)) *Decoder {
	d := NewDecoder(c.maxTab, emit)
	d.SetMaxStringLength(c.maxStr)
	for _, f := range c.preload {
		d.dynTab.add(f)
	}
	return d
}

func (c vcfg) mkRef() *vrefDec {
	r := &vrefDec{maxSize: c.maxTab, allowed: c.maxTab, maxStrLen: c.maxStr}
	for _, f := range c.preload {
		r.add(f)
	}
	return r
}

// checkBlock: real whole == reference; every cut list == whole
func vcheckBlock(c vcfg, block []byte, cutLists [][]int) error {
	ref := c.mkRef()
	want, ok := ref.decode(block)
	whole, p := vrunReal(c.mkReal, nil, block)
	if p != nil {
		return fmt.Errorf("panic decoding % x in one Write: %v", block, p)
	}
	if ref.unspecified {
		want, ok = whole.fields, !whole.failed
		ref.table, ref.size, ref.maxSize = whole.table, whole.size, whole.max
	}
	if whole.failed != !ok {
		return fmt.Errorf("block % x: decoder rejected=%v, RFC 7541 says rejected=%v (fields so far %v)", block, whole.failed, !ok, whole.fields)
	}
	if !vsameFields(whole.fields, want) {
		return fmt.Errorf("block % x: decoder emitted %v, RFC 7541 says %v", block, whole.fields, want)
	}
	if ok && (!vsameFields(whole.table, ref.table) || whole.size != ref.size || whole.max != ref.maxSize) {
		return fmt.Errorf("block % x: dynamic table %v size %d max %d, RFC 7541 says %v size %d max %d", block, whole.table, whole.size, whole.max, ref.table, ref.size, ref.maxSize)
	}
	for _, cuts := range cutLists {
		got, p := vrunReal(c.mkReal, cuts, block)
		if p != nil {
			return fmt.Errorf("panic decoding % x cut at %v: %v", block, cuts, p)
		}
		if got.failed != whole.failed || !vsameFields(got.fields, whole.fields) {
			return fmt.Errorf("block % x cut at %v: rejected=%v fields %v; in one Write: rejected=%v fields %v", block, cuts, got.failed, got.fields, whole.failed, whole.fields)
		}
		if !whole.failed && (!vsameFields(got.table, whole.table) || got.size != whole.size || got.max != whole.max) {
			return fmt.Errorf("block % x cut at %v: dynamic table differs from the one-Write run", block, cuts)
		}
	}
	return nil
}

func vallCuts(n int) [][]int {
	var out [][]int
	for i := 1; i < n; i++ {
		out = append(out, []int{i})
	}
	return out
}

func TestVerifBoundedC18Varint(t *testing.T) {
	var vals []uint64
	for _, b := range []uint64{0, 1, 2, 14, 15, 16, 30, 31, 32, 62, 63, 64, 126, 127, 128, 129, 254, 255, 256, 257, 16383, 16384, 1<<21 - 1, 1 << 21, 1<<28 + 5, 1<<32 - 1, 1 << 32, 1<<35 - 1, 1<<42 + 7, 1<<49 - 1, 1 << 56, 1<<62 - 1, 1 << 62} {
		vals = append(vals, b)
	}
	for k := uint64(0); k < 70000; k++ {
		vals = append(vals, k)
	}
	cnt := 0
	for n := byte(1); n <= 8; n++ {
		for _, v := range vals {
			enc := appendVarInt([]byte{0x5a}, n, v)[1:]
			got, rem, err := readVarInt(n, append(append([]byte{}, enc...), 0x77))
			if err != nil || got != v || len(rem) != 1 || rem[0] != 0x77 {
				t.Fatalf("varint n=%d v=%d: encoded % x, decoded %d rem % x err %v", n, v, enc, got, rem, err)
			}
			for cut := 0; cut < len(enc); cut++ {
				if _, rem, err := readVarInt(n, enc[:cut]); err != errNeedMore || len(rem) != cut {
					t.Fatalf("varint n=%d v=%d: prefix of %d bytes gives err %v, want need-more with the input untouched", n, v, cut, err)
				}
			}
			cnt++
		}
		// over-long encodings: no panic, rejected as overflow once 63 bits are exceeded
		long := []byte{0xff}
		for i := 0; i < 12; i++ {
			long = append(long, 0x80)
			_, _, err := readVarInt(n, long)
			if i < 8 && err != errNeedMore {
				t.Fatalf("over-long varint with %d continuation bytes: err %v, want need-more", i+1, err)
			}
			if i >= 8 && err != errVarintOverflow {
				t.Fatalf("over-long varint with %d continuation bytes: err %v, want overflow", i+1, err)
			}
		}
	}
	fmt.Printf("VERIF-BOUNDED {\"varint_values\": %d}\n", cnt)
}

func TestVerifBoundedC18Huffman(t *testing.T) {
	cnt := 0
	check := func(v []byte) {
		want, ok := vrefHuffDecode(v, 0)
		got, err := HuffmanDecodeToString(v)
		if (err == nil) != ok || (ok && got != string(want)) {
			t.Fatalf("Huffman input % x: decoder gives %q err %v, RFC 7541 reference gives %q ok=%v", v, got, err, want, ok)
		}
		cnt++
	}
	check(nil)
	for a := 0; a < 256; a++ {
		check([]byte{byte(a)})
		for b := 0; b < 256; b++ {
			check([]byte{byte(a), byte(b)})
		}
	}
	rng := rand.New(rand.NewSource(18))
	iters := 200000
	if os.Getenv("VERIF_TIER") == "thorough" {
		iters = 3000000
	}
	for i := 0; i < iters; i++ {
		v := make([]byte, 3+rng.Intn(6))
		for j := range v {
			if rng.Intn(3) == 0 {
				v[j] = 0xff
			} else {
				v[j] = byte(rng.Intn(256))
			}
		}
		check(v)
	}
	// round trip
	rt := func(s string) {
		enc := AppendHuffmanString(nil, s)
		if uint64(len(enc)) != HuffmanEncodeLength(s) {
			t.Fatalf("HuffmanEncodeLength(%q)=%d, encoded %d bytes", s, HuffmanEncodeLength(s), len(enc))
		}
		got, err := HuffmanDecodeToString(enc)
		if err != nil || got != s {
			t.Fatalf("Huffman round trip of %q: %q err %v", s, got, err)
		}
		cnt++
	}
	for a := 0; a < 256; a++ {
		rt(string([]byte{byte(a)}))
		for b := 0; b < 256; b++ {
			rt(string([]byte{byte(a), byte(b)}))
		}
	}
	for i := 0; i < iters/4; i++ {
		s := make([]byte, rng.Intn(40))
		for j := range s {
			s[j] = byte(rng.Intn(256))
		}
		rt(string(s))
	}
	fmt.Printf("VERIF-BOUNDED {\"huffman_cases\": %d}\n", cnt)
}

func vconfigs() []vcfg {
	pre := []HeaderField{{Name: "k", Value: "v"}, {Name: "custom-key", Value: "custom-header"}, {Name: "k", Value: "w"}}
	return []vcfg{
		{"empty-4096", 4096, 0, nil},
		{"preloaded-4096", 4096, 0, pre},
		{"preloaded-100", 100, 0, pre[:2]},
		{"preloaded-4096-maxstr3", 4096, 3, pre},
		{"zero-table", 0, 0, nil},
	}
}

func TestVerifBoundedC18DecoderEnumerated(t *testing.T) {
	// every byte string of length <= 2 over the full alphabet, length 3 over a structured alphabet
	alpha := []byte{0x00, 0x01, 0x02, 0x0f, 0x10, 0x1f, 0x20, 0x21, 0x3f, 0x40, 0x41, 0x7e, 0x7f, 0x80, 0x81, 0x82, 0xbe, 0xbf, 0xc0, 0xfe, 0xff, 0x61, 0x3e, 0x3d}
	cnt := 0
	for _, c := range vconfigs() {
		run := func(b []byte) {
			if err := vcheckBlock(c, b, vallCuts(len(b))); err != nil {
				t.Fatalf("[%s] %v", c.name, err)
			}
			cnt++
		}
		run(nil)
		for a := 0; a < 256; a++ {
			run([]byte{byte(a)})
			for b := 0; b < 256; b++ {
				run([]byte{byte(a), byte(b)})
			}
		}
		depth := 4
		if os.Getenv("VERIF_TIER") == "thorough" {
			depth = 5
		}
		var rec func(p []byte)
		rec = func(p []byte) {
			if len(p) >= 3 {
				run(p)
			}
			if len(p) == depth {
				return
			}
			for _, x := range alpha {
				rec(append(append([]byte{}, p...), x))
			}
		}
		rec(nil)
	}
	fmt.Printf("VERIF-BOUNDED {\"decoder_enumerated_blocks\": %d}\n", cnt)
}

var vnames = []string{"k", "custom-key", ":path", "cookie", "x", "", "www-authenticate", "a-rather-long-header-name-that-does-not-fit-small-tables-0123456789"}
var vvalues = []string{"v", "w", "", "/index.html", "custom-header", "0123456789abcdef0123456789abcdef", "\x00\xff\x80binary", "a-rather-long-value-that-does-not-fit-small-tables-0123456789-0123456789-0123456789-0123456789"}

func vrandField(rng *rand.Rand) HeaderField {
	f := HeaderField{Name: vnames[rng.Intn(len(vnames))], Value: vvalues[rng.Intn(len(vvalues))]}
	if rng.Intn(6) == 0 {
		b := make([]byte, rng.Intn(5))
		for i := range b {
			b[i] = byte(rng.Intn(256))
		}
		f.Value = string(b)
	}
	if rng.Intn(40) == 0 {
		f.Value = string(bytes.Repeat([]byte{'z'}, 200+rng.Intn(5000)))
	}
	f.Sensitive = rng.Intn(5) == 0
	return f
}

func TestVerifBoundedC18DecoderRandom(t *testing.T) {
	seed, _ := strconv.ParseInt(os.Getenv("VERIF_SEED"), 10, 64)
	rng := rand.New(rand.NewSource(seed + 1801))
	iters := 30000
	if os.Getenv("VERIF_TIER") == "thorough" {
		iters = 400000
	}
	cfgs := vconfigs()
	cnt := 0
	for i := 0; i < iters; i++ {
		c := cfgs[rng.Intn(len(cfgs))]
		var block []byte
		switch rng.Intn(3) {
		case 0: // raw random bytes with a bias to representation prefixes
			n := 1 + rng.Intn(12)
			for j := 0; j < n; j++ {
				switch rng.Intn(4) {
				case 0:
					block = append(block, []byte{0x80, 0x40, 0x00, 0x10, 0x20, 0xff, 0x7f, 0x3f, 0x1f, 0x0f}[rng.Intn(10)])
				default:
					block = append(block, byte(rng.Intn(256)))
				}
			}
		default: // encoder output, possibly mutated
			var buf bytes.Buffer
			e := NewEncoder(&buf)
			if rng.Intn(3) == 0 {
				e.SetMaxDynamicTableSize(uint32(rng.Intn(200)))
			}
			for _, f := range c.preload {
				e.dynTab.add(f)
			}
			for j := 0; j < 1+rng.Intn(5); j++ {
				e.WriteField(vrandField(rng))
			}
			block = buf.Bytes()
			if rng.Intn(2) == 0 && len(block) > 0 {
				for k := 0; k < 1+rng.Intn(3); k++ {
					switch rng.Intn(3) {
					case 0:
						block[rng.Intn(len(block))] ^= byte(1 << uint(rng.Intn(8)))
					case 1:
						block = block[:rng.Intn(len(block)+1)]
					case 2:
						p := rng.Intn(len(block) + 1)
						block = append(block[:p:p], append([]byte{byte(rng.Intn(256))}, block[p:]...)...)
					}
					if len(block) == 0 {
						break
					}
				}
			}
		}
		cuts := vallCuts(len(block))
		if len(block) > 64 {
			cuts = nil
			for k := 0; k < 24; k++ {
				cuts = append(cuts, []int{1 + rng.Intn(len(block)-1)})
			}
		}
		// random multi-way cuts
		for k := 0; k < 4 && len(block) > 2; k++ {
			var cl []int
			pos := 0
			for pos < len(block) {
				pos += 1 + rng.Intn(4)
				if pos < len(block) {
					cl = append(cl, pos)
				}
			}
			cuts = append(cuts, cl)
		}
		// byte-at-a-time
		if len(block) > 1 && len(block) < 400 {
			var cl []int
			for p := 1; p < len(block); p++ {
				cl = append(cl, p)
			}
			cuts = append(cuts, cl)
		}
		if err := vcheckBlock(c, block, cuts); err != nil {
			t.Fatalf("[%s] %v", c.name, err)
		}
		cnt++
	}
	fmt.Printf("VERIF-BOUNDED {\"decoder_random_blocks\": %d}\n", cnt)
}

func TestVerifBoundedC18RoundTrip(t *testing.T) {
	seed, _ := strconv.ParseInt(os.Getenv("VERIF_SEED"), 10, 64)
	rng := rand.New(rand.NewSource(seed + 1802))
	iters := 6000
	if os.Getenv("VERIF_TIER") == "thorough" {
		iters = 80000
	}
	blocks := 0
	for i := 0; i < iters; i++ {
		var buf bytes.Buffer
		e := NewEncoder(&buf)
		var got []HeaderField
		d := NewDecoder(4096, func(f HeaderField) { got = append(got, f) })
		var history []string
		fail := func(format string, a ...interface{}) {
			h, _ := json.Marshal(history)
			t.Fatalf("round trip: %s\n  history: %s", fmt.Sprintf(format, a...), h)
		}
		for b := 0; b < 1+rng.Intn(8); b++ {
			// table-size changes between blocks: the decoder side announces a limit (SETTINGS), the encoder follows
			for k := rng.Intn(3); k > 0; k-- {
				if rng.Intn(4) == 0 {
					lim := uint32([]int{0, 40, 64, 100, 200, 4096, 8192}[rng.Intn(7)])
					d.SetAllowedMaxDynamicTableSize(lim)
					e.SetMaxDynamicTableSizeLimit(lim)
					history = append(history, fmt.Sprintf("limit %d", lim))
				} else {
					v := uint32([]int{0, 1, 33, 40, 64, 70, 100, 150, 200, 1000, 4096, 5000}[rng.Intn(12)])
					e.SetMaxDynamicTableSize(v)
					history = append(history, fmt.Sprintf("size %d", v))
				}
			}
			var fields []HeaderField
			for j := 0; j < 1+rng.Intn(6); j++ {
				f := vrandField(rng)
				fields = append(fields, f)
				if err := e.WriteField(f); err != nil {
					fail("WriteField: %v", err)
				}
			}
			history = append(history, fmt.Sprintf("block %q", fields))
			block := append([]byte{}, buf.Bytes()...)
			buf.Reset()
			got = nil
			// a receiver that stopped emitting (header list too long) must still keep its table in step
			emit := rng.Intn(5) != 0
			d.SetEmitEnabled(emit)
			if !emit {
				history = append(history, "emit off")
			}
			// deliver in random fragments
			for len(block) > 0 {
				n := 1 + rng.Intn(len(block))
				if rng.Intn(3) == 0 {
					n = len(block)
				}
				if _, err := d.Write(block[:n]); err != nil {
					fail("decoder rejected the encoder's output: %v", err)
				}
				block = block[n:]
			}
			if err := d.Close(); err != nil {
				fail("Close: %v", err)
			}
			if emit && !vsameFields(got, fields) {
				fail("decoded %q, encoded %q", got, fields)
			}
			if !emit && len(got) != 0 {
				fail("fields emitted although emitting was disabled: %q", got)
			}
			if !vsameFields(d.dynTab.table.ents, e.dynTab.table.ents) || d.dynTab.size != e.dynTab.size || d.dynTab.maxSize != e.dynTab.maxSize {
				fail("dynamic tables differ: decoder %q (size %d max %d), encoder %q (size %d max %d)", d.dynTab.table.ents, d.dynTab.size, d.dynTab.maxSize, e.dynTab.table.ents, e.dynTab.size, e.dynTab.maxSize)
			}
			if d.dynTab.size > d.dynTab.maxSize || e.dynTab.size > e.dynTab.maxSize {
				fail("table above its limit")
			}
			blocks++
		}
	}
	fmt.Printf("VERIF-BOUNDED {\"roundtrip_blocks\": %d}\n", blocks)
}
