package http2

// BOUNDED stand-in for the part of C08 the contracts in verif_contracts_databuffer.go do not carry: the byte
// CONTENTS of the request-body chunk buffer. The contracts prove the representation invariant (chunk size classes,
// indices, the size ledger) for every Read/Write sequence; they cannot follow the bytes, because Write copies into a
// chunk through the alias returned by lastChunkOrAlloc and the verifier models slices as values.
// This test drives the REAL dataBuffer and the REAL pipe (injected into package http2 with `go test -overlay`)
// against a plain []byte queue:
//   - exhaustively: every sequence of up to D operations over writes/reads whose sizes sit on and around the
//     chunk-class boundaries (quick: D = 4 over {0, 1, 1024, 1025, 2048, 16384, 16385}; thorough: D = 5 over
//     {1, 1024, 1025, 4096, 16385}), for the expected-length hints 0, 1, 2048 and 20000;
//   - seeded random walks (2000 x 60 quick, 20000 x 120 thorough) with arbitrary sizes up to 40000;
// after every operation it compares the returned counts, the bytes read, Len(), and the representation invariant.
// It is a bounded check: labelled so in the evidence and never counted as proved.

import (
	"bytes"
	"encoding/json"
	"fmt"
	"io"
	"math/rand"
	"os"
	"strconv"
	"testing"
)

type vb08Op struct {
	write bool
	n     int
}

func (o vb08Op) String() string {
	if o.write {
		return fmt.Sprintf("Write(%d)", o.n)
	}
	return fmt.Sprintf("Read(%d)", o.n)
}

func vb08Class(n int) bool {
	return n == 1<<10 || n == 2<<10 || n == 4<<10 || n == 8<<10 || n == 16<<10
}

// vb08Inv is the representation invariant the contracts prove, re-checked on the real object.
func vb08Inv(b *dataBuffer) error {
	if b.r < 0 || b.w < 0 || b.size < 0 {
		return fmt.Errorf("negative index/size r=%d w=%d size=%d", b.r, b.w, b.size)
	}
	total := 0
	for i, c := range b.chunks {
		if !vb08Class(len(c)) {
			return fmt.Errorf("chunk %d has length %d, not a size class", i, len(c))
		}
		total += len(c)
	}
	if len(b.chunks) == 0 {
		if b.size != 0 || b.r != 0 {
			return fmt.Errorf("no chunks but size=%d r=%d", b.size, b.r)
		}
		return nil
	}
	last := b.chunks[len(b.chunks)-1]
	if b.r >= len(b.chunks[0]) || b.w > len(last) {
		return fmt.Errorf("r=%d (first chunk %d) w=%d (last chunk %d)", b.r, len(b.chunks[0]), b.w, len(last))
	}
	if want := total - b.r - (len(last) - b.w); b.size != want {
		return fmt.Errorf("size=%d, chunks hold %d", b.size, want)
	}
	return nil
}

type vb08Run struct {
	b    *dataBuffer
	ref  []byte
	next byte
	hist []vb08Op
}

func (r *vb08Run) step(o vb08Op) error {
	r.hist = append(r.hist, o)
	if o.write {
		p := make([]byte, o.n)
		for i := range p {
			p[i] = r.next
			r.next = r.next*31 + 7
		}
		n, err := r.b.Write(p)
		if n != o.n || err != nil {
			return fmt.Errorf("Write(%d) = %d, %v", o.n, n, err)
		}
		r.ref = append(r.ref, p...)
	} else {
		p := make([]byte, o.n)
		n, err := r.b.Read(p)
		want := o.n
		if want > len(r.ref) {
			want = len(r.ref)
		}
		if len(r.ref) == 0 {
			if n != 0 || err == nil {
				return fmt.Errorf("Read(%d) on an empty buffer = %d, %v", o.n, n, err)
			}
		} else {
			if n != want || err != nil {
				return fmt.Errorf("Read(%d) = %d, %v; want %d bytes", o.n, n, err, want)
			}
			if !bytes.Equal(p[:n], r.ref[:n]) {
				return fmt.Errorf("Read(%d) returned other bytes than were written (first difference at %d)", o.n, vb08Diff(p[:n], r.ref[:n]))
			}
			r.ref = r.ref[n:]
		}
	}
	if r.b.Len() != len(r.ref) {
		return fmt.Errorf("Len() = %d, %d bytes outstanding", r.b.Len(), len(r.ref))
	}
	return vb08Inv(r.b)
}

func vb08Diff(a, b []byte) int {
	for i := range a {
		if a[i] != b[i] {
			return i
		}
	}
	return -1
}

func TestVerifBoundedC08DataBuffer(t *testing.T) {
	tier := os.Getenv("VERIF_TIER")
	seed, _ := strconv.ParseInt(os.Getenv("VERIF_SEED"), 10, 64)
	depth, walks, walkLen := 4, 2000, 60
	if tier == "thorough" {
		depth, walks, walkLen = 5, 20000, 120
	}
	sizes := []int{0, 1, 1023, 1024, 1025, 2048, 4096, 8192, 16384, 16385}
	var alphabet []vb08Op
	seqs, ops := 0, 0
	fail := func(r *vb08Run, expected int64, err error) {
		t.Fatalf("VERIF-BOUNDED-FAIL dataBuffer{expected:%d} after %v: %v", expected, r.hist, err)
	}
	for _, expected := range []int64{0, 1, 2048, 20000} {
		var rec func(prefix []vb08Op)
		rec = func(prefix []vb08Op) {
			if len(prefix) > 0 {
				r := &vb08Run{b: &dataBuffer{expected: expected}}
				seqs++
				for _, o := range prefix {
					ops++
					if err := r.step(o); err != nil {
						fail(r, expected, err)
					}
				}
			}
			if len(prefix) == depth {
				return
			}
			for _, o := range alphabet {
				rec(append(append([]vb08Op{}, prefix...), o))
			}
		}
		// the enumeration alphabet: sizes on and around the class boundaries (reduced at the larger depth)
		enum := []int{0, 1, 1024, 1025, 2048, 16384, 16385}
		if depth >= 5 {
			enum = []int{1, 1024, 1025, 4096, 16385}
		}
		alphabet = nil
		for _, n := range enum {
			alphabet = append(alphabet, vb08Op{true, n}, vb08Op{false, n})
		}
		rec(nil)
	}
	rng := rand.New(rand.NewSource(seed + 8))
	for w := 0; w < walks; w++ {
		expected := []int64{0, -1, 100, 5000, 70000}[rng.Intn(5)]
		r := &vb08Run{b: &dataBuffer{expected: expected}}
		for i := 0; i < walkLen; i++ {
			var n int
			switch rng.Intn(4) {
			case 0:
				n = sizes[rng.Intn(len(sizes))]
			case 1:
				n = rng.Intn(64)
			default:
				n = rng.Intn(40000)
			}
			ops++
			if err := r.step(vb08Op{rng.Intn(2) == 0, n}); err != nil {
				fail(r, expected, err)
			}
		}
		seqs++
	}
	// the pipe on top of it: what is written is what is read, in order, across a close
	for w := 0; w < walks/10; w++ {
		p := &pipe{b: &dataBuffer{expected: int64(rng.Intn(3000))}}
		var ref, got []byte
		var nb byte
		for i := 0; i < 20; i++ {
			if rng.Intn(2) == 0 {
				d := make([]byte, rng.Intn(9000))
				for k := range d {
					d[k] = nb
					nb = nb*17 + 3
				}
				if n, err := p.Write(d); n != len(d) || err != nil {
					t.Fatalf("VERIF-BOUNDED-FAIL pipe.Write(%d) = %d, %v", len(d), n, err)
				}
				ref = append(ref, d...)
			} else if p.Len() > 0 {
				d := make([]byte, rng.Intn(9000)+1)
				n, err := p.Read(d)
				if err != nil {
					t.Fatalf("VERIF-BOUNDED-FAIL pipe.Read with %d bytes buffered: %v", p.Len(), err)
				}
				got = append(got, d[:n]...)
			}
			if p.Len() != len(ref)-len(got) {
				t.Fatalf("VERIF-BOUNDED-FAIL pipe.Len() = %d, %d outstanding", p.Len(), len(ref)-len(got))
			}
		}
		p.CloseWithError(io.EOF)
		rest, err := io.ReadAll(p)
		if err != nil {
			t.Fatalf("VERIF-BOUNDED-FAIL draining the closed pipe: %v", err)
		}
		got = append(got, rest...)
		if !bytes.Equal(got, ref) {
			t.Fatalf("VERIF-BOUNDED-FAIL pipe delivered %d bytes, %d written, first difference at %d", len(got), len(ref), vb08Diff(got, ref))
		}
		seqs++
	}
	st, _ := json.Marshal(map[string]int{"sequences": seqs, "operations": ops, "depth": depth, "random_walks": walks})
	fmt.Printf("VERIF-BOUNDED %s\n", st)
}
