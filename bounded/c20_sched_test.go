package http2

// BOUNDED stand-in for the part of C20 that the contracts in verif_contracts_sched.go do not carry:
//   - the round-robin ring is ONE cycle containing exactly the queues of the open streams (the contracts prove
//     only the local doubly-linked shape, closed under next/prev),
//   - "Pop reports nothing only when no queued frame is sendable" for the ring cursor and for the priority walk,
//   - the priority scheduler's tree (rooted at stream 0, acyclic, parent/kids/sibling links consistent) under every
//     sequence of open/close/adjust, and its conservation/order of frames.
// It drives the REAL schedulers (injected into package http2 with `go test -overlay`) with every operation sequence
// up to a stated depth over a small alphabet, plus seeded random long walks, against a list-based reference
// scheduler, and inspects the package-internal structure after every operation.
// This is a bounded check: it is labelled so in the evidence and is never counted as proved.

import (
	"encoding/json"
	"fmt"
	"math/rand"
	"os"
	"strconv"
	"strings"
	"sync"
	"sync/atomic"
	"testing"
)

type vbKind int

const (
	vbOpen vbKind = iota
	vbClose
	vbAdjust
	vbPushControl
	vbPushRST
	vbPushHeaders
	vbPushData
	vbPop
	vbGrant
)

type vbOp struct {
	k      vbKind
	id     uint32
	dep    uint32
	excl   bool
	weight uint8
}

func (o vbOp) String() string {
	switch o.k {
	case vbOpen:
		return fmt.Sprintf("Open(%d)", o.id)
	case vbClose:
		return fmt.Sprintf("Close(%d)", o.id)
	case vbAdjust:
		return fmt.Sprintf("Adjust(%d,dep=%d,excl=%v,w=%d)", o.id, o.dep, o.excl, o.weight)
	case vbPushControl:
		return "PushControl"
	case vbPushRST:
		return fmt.Sprintf("PushRST(%d)", o.id)
	case vbPushHeaders:
		return fmt.Sprintf("PushHeaders(%d)", o.id)
	case vbPushData:
		return fmt.Sprintf("PushData(%d)", o.id)
	case vbPop:
		return "Pop"
	case vbGrant:
		return "Grant"
	}
	return "?"
}

type vbFrame struct {
	wr     FrameWriteRequest
	isData bool
	rem    []byte // remaining payload of a DATA frame
	serial int
}

type vbStream struct {
	st     *stream
	open   bool
	opened bool // ever opened
	q      []*vbFrame
}

type vbModel struct {
	control []*vbFrame
	streams map[uint32]*vbStream
	conn    *outflow
	sc      *serverConn
	serial  int
}

const (
	vbMaxFrame   = 2
	vbDataLen    = 3
	vbStreamWin  = 2
	vbConnWin    = 3
	vbGrantConn  = 3
	vbGrantStrm  = 2
)

var vbIDs = []uint32{1, 3, 5}

func newVBModel() *vbModel {
	m := &vbModel{streams: map[uint32]*vbStream{}, conn: &outflow{}, sc: &serverConn{maxFrameSize: vbMaxFrame}}
	m.conn.add(vbConnWin)
	for _, id := range append(append([]uint32{}, vbIDs...), 7) {
		st := &stream{id: id, sc: m.sc}
		st.flow.conn = m.conn
		st.flow.add(vbStreamWin)
		m.streams[id] = &vbStream{st: st}
	}
	return m
}

type vbSched struct {
	name string
	mk   func() WriteScheduler
	prio bool
}

func vbSchedulers() []vbSched {
	out := []vbSched{
		{"roundrobin", func() WriteScheduler { return newRoundRobinWriteScheduler() }, false},
		{"random", func() WriteScheduler { return NewRandomWriteScheduler() }, false},
	}
	for _, c := range []PriorityWriteSchedulerConfig{
		{MaxClosedNodesInTree: 0, MaxIdleNodesInTree: 0},
		{MaxClosedNodesInTree: 1, MaxIdleNodesInTree: 1},
		{MaxClosedNodesInTree: 2, MaxIdleNodesInTree: 2, ThrottleOutOfOrderWrites: true},
		{MaxClosedNodesInTree: 10, MaxIdleNodesInTree: 10},
	} {
		c := c
		out = append(out, vbSched{fmt.Sprintf("priority(closed=%d,idle=%d,throttle=%v)", c.MaxClosedNodesInTree, c.MaxIdleNodesInTree, c.ThrottleOutOfOrderWrites),
			func() WriteScheduler { cc := c; return NewPriorityWriteScheduler(&cc) }, true})
	}
	return out
}

// enabled lists the operations the WriteScheduler interface permits in the model's current state.
func (m *vbModel) enabled(prio bool, rich bool) []vbOp {
	var ops []vbOp
	ops = append(ops, vbOp{k: vbPop}, vbOp{k: vbPushControl})
	for _, id := range vbIDs {
		s := m.streams[id]
		if !s.opened {
			ops = append(ops, vbOp{k: vbOpen, id: id})
		}
		if s.open {
			ops = append(ops, vbOp{k: vbClose, id: id}, vbOp{k: vbPushHeaders, id: id}, vbOp{k: vbPushData, id: id})
		}
	}
	ops = append(ops, vbOp{k: vbGrant}, vbOp{k: vbPushRST, id: 3})
	if prio {
		ids := []uint32{1, 3, 5, 7}
		deps := []uint32{0, 1, 3, 5, 7}
		for _, id := range ids {
			for _, dep := range deps {
				for _, ex := range []bool{false, true} {
					w := uint8(15)
					if (id+dep)%4 == 0 {
						w = 200
					}
					ops = append(ops, vbOp{k: vbAdjust, id: id, dep: dep, excl: ex, weight: w})
					if rich {
						ops = append(ops, vbOp{k: vbAdjust, id: id, dep: dep, excl: ex, weight: 255 - w})
					}
				}
			}
		}
	}
	return ops
}

func vbSame(a, b FrameWriteRequest) bool {
	if a.stream != b.stream || a.done != b.done {
		return false
	}
	switch x := a.write.(type) {
	case StreamError:
		y, ok := b.write.(StreamError)
		return ok && x.StreamID == y.StreamID && x.Code == y.Code && x.Cause == y.Cause
	default:
		return a.write == b.write
	}
}

// apply runs one operation on the real scheduler and on the model and checks the Pop oracle.
func (m *vbModel) apply(ws WriteScheduler, o vbOp) (err error) {
	defer func() {
		if r := recover(); r != nil {
			err = fmt.Errorf("panic in %v: %v", o, r)
		}
	}()
	switch o.k {
	case vbOpen:
		ws.OpenStream(o.id, OpenStreamOptions{})
		s := m.streams[o.id]
		s.open, s.opened = true, true
	case vbClose:
		ws.CloseStream(o.id)
		s := m.streams[o.id]
		s.open = false
		s.q = nil
	case vbAdjust:
		ws.AdjustStream(o.id, PriorityParam{StreamDep: o.dep, Exclusive: o.excl, Weight: o.weight})
	case vbPushControl:
		m.serial++
		f := &vbFrame{wr: FrameWriteRequest{write: &handlerPanicRST{StreamID: uint32(1000 + m.serial)}}, serial: m.serial}
		ws.Push(f.wr)
		m.control = append(m.control, f)
	case vbPushRST:
		m.serial++
		f := &vbFrame{wr: FrameWriteRequest{write: StreamError{StreamID: o.id, Code: ErrCodeCancel, Cause: fmt.Errorf("rst %d", m.serial)}}, serial: m.serial}
		ws.Push(f.wr)
		m.control = append(m.control, f)
	case vbPushHeaders:
		m.serial++
		s := m.streams[o.id]
		f := &vbFrame{wr: FrameWriteRequest{write: &writeResHeaders{streamID: o.id, httpResCode: m.serial}, stream: s.st}, serial: m.serial}
		ws.Push(f.wr)
		s.q = append(s.q, f)
	case vbPushData:
		m.serial++
		s := m.streams[o.id]
		p := make([]byte, vbDataLen)
		for i := range p {
			p[i] = byte(m.serial*8 + i)
		}
		f := &vbFrame{wr: FrameWriteRequest{write: &writeData{streamID: o.id, p: p, endStream: true}, stream: s.st, done: make(chan error, 1)}, isData: true, rem: p, serial: m.serial}
		ws.Push(f.wr)
		s.q = append(s.q, f)
	case vbGrant:
		m.conn.add(vbGrantConn)
		for _, s := range m.streams {
			s.st.flow.add(vbGrantStrm)
		}
	case vbPop:
		connBefore := m.conn.n
		winBefore := map[uint32]int32{}
		for id, s := range m.streams {
			winBefore[id] = s.st.flow.n
		}
		wr, ok := ws.Pop()
		return m.checkPop(wr, ok, connBefore, winBefore)
	}
	return nil
}

func (m *vbModel) sendable(f *vbFrame, s *vbStream, connN int32, strmN int32) bool {
	if !f.isData || len(f.rem) == 0 {
		return true
	}
	a := strmN
	if connN < a {
		a = connN
	}
	if vbMaxFrame < a {
		a = vbMaxFrame
	}
	return a > 0
}

func (m *vbModel) checkPop(wr FrameWriteRequest, ok bool, connBefore int32, winBefore map[uint32]int32) error {
	if !ok {
		if len(m.control) > 0 {
			return fmt.Errorf("Pop reported nothing to write with %d control frame(s) queued", len(m.control))
		}
		for id, s := range m.streams {
			if s.open && len(s.q) > 0 && m.sendable(s.q[0], s, connBefore, winBefore[id]) {
				return fmt.Errorf("Pop reported nothing to write, but stream %d has a sendable frame at the head of its queue (%d queued)", id, len(s.q))
			}
		}
		return nil
	}
	if len(m.control) > 0 {
		if !vbSame(wr, m.control[0].wr) {
			return fmt.Errorf("control frames queued, but Pop returned %v instead of the oldest control frame %v", wr, m.control[0].wr)
		}
		m.control = m.control[1:]
		return nil
	}
	if wr.stream == nil {
		return fmt.Errorf("Pop returned a control frame %v that is not queued (duplicate or invented)", wr)
	}
	s := m.streams[wr.stream.id]
	if s == nil || !s.open || len(s.q) == 0 {
		return fmt.Errorf("Pop returned a frame for stream %d, which has nothing queued (closed stream or duplicate)", wr.stream.id)
	}
	h := s.q[0]
	if !h.isData {
		if !vbSame(wr, h.wr) {
			return fmt.Errorf("stream %d: Pop returned %v, want the oldest queued frame %v (order within a stream)", wr.stream.id, wr, h.wr)
		}
		s.q = s.q[1:]
		return nil
	}
	wd, isd := wr.write.(*writeData)
	if !isd || wd.streamID != wr.stream.id || wr.stream != h.wr.stream {
		return fmt.Errorf("stream %d: Pop returned %v, want (a piece of) the DATA frame at the head", wr.stream.id, wr)
	}
	n := len(wd.p)
	allowed := winBefore[wr.stream.id]
	if connBefore < allowed {
		allowed = connBefore
	}
	if vbMaxFrame < allowed {
		allowed = vbMaxFrame
	}
	if n == 0 || n > int(allowed) {
		return fmt.Errorf("stream %d: released %d DATA bytes with stream window %d, connection window %d, max frame size %d", wr.stream.id, n, winBefore[wr.stream.id], connBefore, vbMaxFrame)
	}
	if n > len(h.rem) || string(wd.p) != string(h.rem[:n]) {
		return fmt.Errorf("stream %d: released bytes %v are not the next bytes %v of the queued DATA frame", wr.stream.id, wd.p, h.rem)
	}
	if m.conn.n != connBefore-int32(n) || wr.stream.flow.n != winBefore[wr.stream.id]-int32(n) {
		return fmt.Errorf("stream %d: windows not charged by the %d released bytes (conn %d->%d, stream %d->%d)", wr.stream.id, n, connBefore, m.conn.n, winBefore[wr.stream.id], wr.stream.flow.n)
	}
	for id, st := range m.streams {
		if id != wr.stream.id && st.st.flow.n != winBefore[id] {
			return fmt.Errorf("window of stream %d changed by a Pop for stream %d", id, wr.stream.id)
		}
	}
	last := n == len(h.rem)
	if wd.endStream != last {
		return fmt.Errorf("stream %d: endStream=%v on a piece with %d of %d remaining bytes", wr.stream.id, wd.endStream, n, len(h.rem))
	}
	if last {
		if wr.done != h.wr.done {
			return fmt.Errorf("stream %d: final piece does not carry the original done channel", wr.stream.id)
		}
		s.q = s.q[1:]
	} else {
		if wr.done != nil {
			return fmt.Errorf("stream %d: intermediate piece carries a done channel", wr.stream.id)
		}
		h.rem = h.rem[n:]
	}
	return nil
}

// queueMatches compares a real queue with the model queue (same frames, same order, same remaining payloads).
func vbQueueMatches(what string, q []FrameWriteRequest, mq []*vbFrame) error {
	if len(q) != len(mq) {
		return fmt.Errorf("%s holds %d frame(s), reference holds %d", what, len(q), len(mq))
	}
	for i := range q {
		if mq[i].isData {
			wd, ok := q[i].write.(*writeData)
			if !ok || string(wd.p) != string(mq[i].rem) || q[i].stream != mq[i].wr.stream {
				return fmt.Errorf("%s[%d] is %v, reference has DATA with remaining %v", what, i, q[i], mq[i].rem)
			}
		} else if !vbSame(q[i], mq[i].wr) {
			return fmt.Errorf("%s[%d] is %v, reference has %v", what, i, q[i], mq[i].wr)
		}
	}
	return nil
}

func (m *vbModel) checkStructure(ws WriteScheduler) error {
	switch w := ws.(type) {
	case *roundRobinWriteScheduler:
		if err := vbQueueMatches("control queue", w.control.s, m.control); err != nil {
			return err
		}
		set := map[*writeQueue]uint32{}
		for id, q := range w.streams {
			if q == nil {
				continue
			}
			if _, dup := set[q]; dup {
				return fmt.Errorf("two stream ids share one queue")
			}
			set[q] = id
			s := m.streams[id]
			if s == nil || !s.open {
				return fmt.Errorf("stream %d has a queue but is not open", id)
			}
			if err := vbQueueMatches(fmt.Sprintf("queue of stream %d", id), q.s, s.q); err != nil {
				return err
			}
		}
		for id, s := range m.streams {
			if s.open && w.streams[id] == nil {
				return fmt.Errorf("open stream %d has no queue", id)
			}
		}
		if (w.head == nil) != (len(set) == 0) {
			return fmt.Errorf("head nil=%v with %d open stream queue(s)", w.head == nil, len(set))
		}
		seen := map[*writeQueue]bool{}
		for q, i := w.head, 0; q != nil; q, i = q.next, i+1 {
			if seen[q] {
				if q != w.head {
					return fmt.Errorf("ring is not a single cycle through head")
				}
				break
			}
			if i > len(set) {
				return fmt.Errorf("ring longer than the number of open streams")
			}
			if _, ok := set[q]; !ok {
				return fmt.Errorf("ring contains a queue that belongs to no open stream")
			}
			if q.next == nil || q.prev == nil || q.next.prev != q || q.prev.next != q {
				return fmt.Errorf("ring links inconsistent at stream %d", set[q])
			}
			if q == &w.control {
				return fmt.Errorf("control queue is in the ring")
			}
			seen[q] = true
		}
		if len(seen) != len(set) {
			return fmt.Errorf("ring reaches %d queue(s), %d stream(s) are open: a queue is skipped by the cursor", len(seen), len(set))
		}
		for _, q := range w.queuePool {
			if q == nil || len(q.s) != 0 || seen[q] {
				return fmt.Errorf("pooled queue is nil, non-empty or still in the ring")
			}
		}
	case *randomWriteScheduler:
		if err := vbQueueMatches("control queue", w.zero.s, m.control); err != nil {
			return err
		}
		for id, s := range m.streams {
			q := w.sq[id]
			if q == nil {
				if s.open && len(s.q) > 0 {
					return fmt.Errorf("stream %d has %d queued frame(s) in the reference, no queue in the scheduler", id, len(s.q))
				}
				continue
			}
			if err := vbQueueMatches(fmt.Sprintf("queue of stream %d", id), q.s, s.q); err != nil {
				return err
			}
		}
		for id := range w.sq {
			if m.streams[id] == nil {
				return fmt.Errorf("queue for unknown stream %d", id)
			}
		}
	case *priorityWriteScheduler:
		if err := vbQueueMatches("root (control) queue", w.root.q.s, m.control); err != nil {
			return err
		}
		if w.root.id != 0 || w.root.parent != nil || w.root.prev != nil || w.root.next != nil || w.nodes[0] != &w.root {
			return fmt.Errorf("root node is not a parentless node for stream 0 registered under id 0")
		}
		for id, n := range w.nodes {
			if n == nil || n.id != id {
				return fmt.Errorf("nodes[%d] is nil or carries another id", id)
			}
			if n != &w.root && n.parent == nil {
				return fmt.Errorf("node %d is registered but detached from the tree (no parent)", id)
			}
			if n.parent != nil && w.nodes[n.parent.id] != n.parent {
				return fmt.Errorf("node %d hangs under a node (%d) that is not registered", id, n.parent.id)
			}
			steps := 0
			for x := n; x != &w.root; x = x.parent {
				if x == nil {
					return fmt.Errorf("node %d: parent chain ends at nil, not at the root", id)
				}
				if steps++; steps > len(w.nodes) {
					return fmt.Errorf("node %d: parent chain is cyclic", id)
				}
			}
			found := 0
			if n.parent != nil {
				for k := n.parent.kids; k != nil; k = k.next {
					if k == n {
						found++
					}
				}
				if found != 1 {
					return fmt.Errorf("node %d occurs %d time(s) in its parent's list of children", id, found)
				}
			}
			cnt := 0
			for k := n.kids; k != nil; k = k.next {
				if cnt++; cnt > len(w.nodes) {
					return fmt.Errorf("node %d: sibling list of its children is cyclic", id)
				}
				if k.parent != n {
					return fmt.Errorf("node %d lists child %d whose parent is another node", id, k.id)
				}
				if (k == n.kids) != (k.prev == nil) || (k.next != nil && k.next.prev != k) || (k.prev != nil && k.prev.next != k) {
					return fmt.Errorf("node %d: sibling links of child %d inconsistent", id, k.id)
				}
				if w.nodes[k.id] != k {
					return fmt.Errorf("node %d lists child %d that is not registered", id, k.id)
				}
			}
		}
		// every registered node reachable from the root
		reach := 0
		var walk func(n *priorityNode, depth int) error
		walk = func(n *priorityNode, depth int) error {
			reach++
			if depth > len(w.nodes) || reach > len(w.nodes) {
				return fmt.Errorf("tree walk from the root does not terminate within the number of nodes")
			}
			for k := n.kids; k != nil; k = k.next {
				if err := walk(k, depth+1); err != nil {
					return err
				}
			}
			return nil
		}
		if err := walk(&w.root, 0); err != nil {
			return err
		}
		if reach != len(w.nodes) {
			return fmt.Errorf("%d node(s) reachable from the root, %d registered", reach, len(w.nodes))
		}
		for id, s := range m.streams {
			n := w.nodes[id]
			if s.open {
				if n == nil {
					return fmt.Errorf("open stream %d has no node in the tree (its queued frames are lost)", id)
				}
				if n.state != priorityNodeOpen {
					return fmt.Errorf("open stream %d has node state %d", id, n.state)
				}
				if err := vbQueueMatches(fmt.Sprintf("queue of stream %d", id), n.q.s, s.q); err != nil {
					return err
				}
			} else if n != nil && len(n.q.s) != 0 {
				return fmt.Errorf("stream %d is not open but its node holds %d frame(s)", id, len(n.q.s))
			}
		}
	}
	return nil
}

// vbRun replays a sequence from scratch on a fresh scheduler; returns the model for computing enabled successors.
func vbRun(s vbSched, seq []vbOp) (*vbModel, error) {
	m := newVBModel()
	ws := s.mk()
	for i, o := range seq {
		if err := m.apply(ws, o); err != nil {
			return m, fmt.Errorf("after op %d %v: %v", i, o, err)
		}
		if err := m.checkStructure(ws); err != nil {
			return m, fmt.Errorf("structure after op %d %v: %v", i, o, err)
		}
	}
	return m, nil
}

// drain: with unlimited windows every remaining frame must come out, each exactly once.
func vbDrain(s vbSched, seq []vbOp) error {
	m := newVBModel()
	ws := s.mk()
	for _, o := range seq {
		if err := m.apply(ws, o); err != nil {
			return err
		}
	}
	for i := 0; i < 64; i++ {
		if err := m.apply(ws, vbOp{k: vbGrant}); err != nil {
			return err
		}
		for j := 0; j < 4; j++ {
			if err := m.apply(ws, vbOp{k: vbPop}); err != nil {
				return fmt.Errorf("drain: %v", err)
			}
		}
		left := len(m.control)
		for _, st := range m.streams {
			left += len(st.q)
		}
		if left == 0 {
			return m.checkStructure(ws)
		}
	}
	return fmt.Errorf("drain: frames still queued after 256 Pops with windows granted")
}

func vbSeqString(seq []vbOp) string {
	var p []string
	for _, o := range seq {
		p = append(p, o.String())
	}
	return strings.Join(p, " ")
}

func TestVerifBoundedC20Schedulers(t *testing.T) {
	tier := os.Getenv("VERIF_TIER")
	seed, _ := strconv.ParseInt(os.Getenv("VERIF_SEED"), 10, 64)
	depthPlain, depthPrio, walks, walkLen := 5, 3, 4000, 40
	if tier == "thorough" {
		depthPlain, depthPrio, walks, walkLen = 6, 4, 40000, 60
	}
	var total, seqs int64
	var mu sync.Mutex
	var firstErr string
	report := func(s vbSched, seq []vbOp, err error) {
		mu.Lock()
		defer mu.Unlock()
		if firstErr == "" {
			firstErr = fmt.Sprintf("%s: %v\n  sequence: %s", s.name, err, vbSeqString(seq))
		}
	}
	failed := func() bool { mu.Lock(); defer mu.Unlock(); return firstErr != "" }
	var wg sync.WaitGroup
	sem := make(chan struct{}, 16)
	for _, s := range vbSchedulers() {
		s := s
		depth := depthPlain
		if s.prio {
			depth = depthPrio
		}
		// exhaustive part: one goroutine per first operation
		m0 := newVBModel()
		for _, first := range m0.enabled(s.prio, false) {
			first := first
			wg.Add(1)
			go func() {
				defer wg.Done()
				sem <- struct{}{}
				defer func() { <-sem }()
				var dfs func(seq []vbOp)
				dfs = func(seq []vbOp) {
					if failed() {
						return
					}
					m, err := vbRun(s, seq)
					atomic.AddInt64(&seqs, 1)
					atomic.AddInt64(&total, int64(len(seq)))
					if err != nil {
						report(s, seq, err)
						return
					}
					if len(seq) >= depth {
						if err := vbDrain(s, seq); err != nil {
							report(s, seq, err)
						}
						return
					}
					for _, o := range m.enabled(s.prio, false) {
						dfs(append(append([]vbOp{}, seq...), o))
					}
				}
				dfs([]vbOp{first})
			}()
		}
		// random long walks
		for w := 0; w < 16; w++ {
			w := w
			wg.Add(1)
			go func() {
				defer wg.Done()
				sem <- struct{}{}
				defer func() { <-sem }()
				rng := rand.New(rand.NewSource(seed*1000003 + int64(w)*7919 + int64(len(s.name))))
				for i := 0; i < walks/16 && !failed(); i++ {
					m := newVBModel()
					ws := s.mk()
					var seq []vbOp
					for j := 0; j < walkLen; j++ {
						en := m.enabled(s.prio, true)
						o := en[rng.Intn(len(en))]
						// bias away from Adjust so that queues fill and drain too
						if o.k == vbAdjust && rng.Intn(3) != 0 {
							o = en[rng.Intn(8)%len(en)]
						}
						seq = append(seq, o)
						err := m.apply(ws, o)
						if err == nil {
							err = m.checkStructure(ws)
						}
						atomic.AddInt64(&total, 1)
						if err != nil {
							report(s, seq, fmt.Errorf("after op %d %v: %v", j, o, err))
							break
						}
					}
					atomic.AddInt64(&seqs, 1)
				}
			}()
		}
	}
	wg.Wait()
	st, _ := json.Marshal(map[string]interface{}{"sequences": seqs, "operations_checked": total, "depth_rr_random": depthPlain, "depth_priority": depthPrio,
		"random_walks_per_scheduler": walks, "walk_length": walkLen, "schedulers": len(vbSchedulers())})
	fmt.Printf("VERIF-BOUNDED %s\n", st)
	if firstErr != "" {
		t.Fatalf("C20 bounded stand-in: %s", firstErr)
	}
}
