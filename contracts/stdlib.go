//go:build verif

// Assumed (trusted) contracts of standard-library and third-party functions.
// Every contract in this file is an ASSUMPTION: it is listed in the evidence
// under trusted_base whenever a discharged obligation used it.
package contracts

//@ ghostfield bytes.Buffer.view seq[byte]
//@ ghostfield iface.delivered seq[byte]

//@ func bytes.(*Buffer).Len :: b -> result
//@   trusted
//@   pure
//@   ensures result == len(b.view)

//@ func bytes.(*Buffer).Bytes :: b -> result
//@   trusted
//@   pure
//@   ensures result == b.view

//@ func bytes.(*Buffer).String :: b -> result
//@   trusted
//@   pure
//@   ensures result == b.view

//@ func bytes.(*Buffer).Write :: b, p -> n, err
//@   trusted
//@   assigns b.view
//@   ensures b.view == old(b.view) ++ p
//@   ensures n == len(p) && err == nil

//@ func bytes.(*Buffer).WriteString :: b, s -> n, err
//@   trusted
//@   assigns b.view
//@   ensures b.view == old(b.view) ++ s
//@   ensures n == len(s) && err == nil

//@ func bytes.(*Buffer).WriteByte :: b, c -> err
//@   trusted
//@   assigns b.view
//@   ensures b.view == old(b.view) ++ unit(c)
//@   ensures err == nil

//@ func bytes.(*Buffer).Reset :: b
//@   trusted
//@   assigns b.view
//@   ensures len(b.view) == 0

//@ func bytes.(*Buffer).Truncate :: b, n
//@   trusted
//@   requires [truncate-in-range] 0 <= n && n <= len(b.view)
//@   assigns b.view
//@   ensures b.view == old(b.view)[:n]

//@ func net.Conn.Read :: c, b -> n, err
//@   trusted
//@   assigns post(b), delivered(c)
//@   ensures 0 <= n && n <= len(b)
//@   ensures delivered(c) == old(delivered(c)) ++ post(b)[:n]

//@ func fmt.Errorf :: format, a -> err
//@   trusted
//@   pure
//@   ensures err != nil

//@ func errors.New :: text -> err
//@   trusted
//@   assigns nothing
//@   ensures err != nil && isptr(errors.errorString, err) && fresh(unboxptr(errors.errorString, err))

//@ func strings.HasPrefix :: s, prefix -> result
//@   trusted
//@   pure
//@   ensures result <==> hasPrefix(s, prefix)

//@ -- net/http, net/http/httputil ------------------------------------------------

//@ -- canonical MIME header key (textproto.CanonicalMIMEHeaderKey), uninterpreted
//@ pure func canon(s string) string
//@ axiom [canon-idempotent] forall s string :: canon(canon(s)) == canon(s)
//@ axiom [canon-host-and-pseudo] canon("Host") == "Host" && canon(":protocol") == ":protocol"
//@ func http.CanonicalHeaderKey :: s -> r
//@   trusted
//@   pure
//@   ensures r == canon(s)
//@ -- net.SplitHostPort(addr): success flag and host part, uninterpreted
//@ pure func splitOK(addr string) bool
//@ pure func hostOf(addr string) string
//@ -- strings.Join(xs, ", "), uninterpreted
//@ pure func joinComma(xs seq[string]) string

//@ ghostfield http.Request.userAgent string
//@ -- what the handler itself wrote to a ResponseWriter (status codes, body bytes)
//@ ghostfield iface.statusCodes seq[int]
//@ ghostfield iface.bodyWritten seq[byte]
//@ -- requests handed to a ReverseProxy for forwarding
//@ ghostfield httputil.ReverseProxy.served seq[*http.Request]

//@ func http.(*Request).UserAgent :: r -> result
//@   trusted
//@   pure
//@   requires r != nil
//@   ensures result == r.userAgent

//@ func http.ResponseWriter.WriteHeader :: w, code
//@   trusted
//@   assigns statusCodes(w)
//@   ensures statusCodes(w) == old(statusCodes(w)) ++ seq[int]{code}

//@ func http.ResponseWriter.Write :: w, p -> n, err
//@   trusted
//@   assigns bodyWritten(w)
//@   ensures bodyWritten(w) == old(bodyWritten(w)) ++ p

//@ func httputil.(*ReverseProxy).ServeHTTP :: rp, w, req
//@   trusted
//@   requires rp != nil
//@   assigns rp.served
//@   ensures rp.served == old(rp.served) ++ seq[*http.Request]{req}

//@ func http.Header.Set :: h, key, value
//@   trusted
//@   requires [set-on-nil-map] h != nil
//@   assigns mapOf(h)
//@   ensures mapHas(h, canon(key)) && mapGet(h, canon(key)) == seq[string]{value}
//@   ensures forall k string :: k != canon(key) ==> (mapHas(h, k) <==> old(mapHas(h, k))) && mapGet(h, k) == old(mapGet(h, k))

//@ func http.Header.Add :: h, key, value
//@   trusted
//@   requires [add-on-nil-map] h != nil
//@   assigns mapOf(h)
//@   ensures mapHas(h, canon(key)) && mapGet(h, canon(key)) == old(ite(mapHas(h, canon(key)), mapGet(h, canon(key)), seq[string]{})) ++ seq[string]{value}
//@   ensures forall k string :: k != canon(key) ==> (mapHas(h, k) <==> old(mapHas(h, k))) && mapGet(h, k) == old(mapGet(h, k))

//@ func http.Header.Get :: h, key -> v
//@   trusted
//@   pure
//@   ensures v == ite(mapHas(h, canon(key)) && len(mapGet(h, canon(key))) > 0, mapGet(h, canon(key))[0], "")

//@ func http.Header.Del :: h, key
//@   trusted
//@   assigns mapOf(h)
//@   ensures !mapHas(h, canon(key))
//@   ensures forall k string :: k != canon(key) ==> (mapHas(h, k) <==> old(mapHas(h, k))) && mapGet(h, k) == old(mapGet(h, k))

//@ func httputil.(*ProxyRequest).SetURL :: r, target
//@   trusted
//@   requires r != nil && r.Out != nil && target != nil
//@   assigns r.Out.Host, r.Out.URL.all
//@   ensures r.Out.Host == ""

//@ func httputil.(*ProxyRequest).SetXForwarded :: r
//@   trusted
//@   requires r != nil && r.In != nil && r.Out != nil && r.Out.Header != nil
//@   assigns mapOf(r.Out.Header)
//@   ensures splitOK(r.In.RemoteAddr) ==> mapHas(r.Out.Header, "X-Forwarded-For") && mapGet(r.Out.Header, "X-Forwarded-For") == seq[string]{ite(old(mapHas(r.Out.Header, "X-Forwarded-For")) && len(old(mapGet(r.Out.Header, "X-Forwarded-For"))) > 0, joinComma(old(mapGet(r.Out.Header, "X-Forwarded-For"))) ++ ", " ++ hostOf(r.In.RemoteAddr), hostOf(r.In.RemoteAddr))}
//@   ensures !splitOK(r.In.RemoteAddr) ==> !mapHas(r.Out.Header, "X-Forwarded-For")
//@   ensures mapHas(r.Out.Header, "X-Forwarded-Host") && mapGet(r.Out.Header, "X-Forwarded-Host") == seq[string]{r.In.Host}
//@   ensures mapHas(r.Out.Header, "X-Forwarded-Proto") && mapGet(r.Out.Header, "X-Forwarded-Proto") == seq[string]{ite(r.In.TLS == nil, "http", "https")}
//@   ensures forall k string :: k != "X-Forwarded-For" && k != "X-Forwarded-Host" && k != "X-Forwarded-Proto" ==> (mapHas(r.Out.Header, k) <==> old(mapHas(r.Out.Header, k))) && mapGet(r.Out.Header, k) == old(mapGet(r.Out.Header, k))

//@ -- crypto/tls, net, context (used by proxyserver.serveConn) -------------------

//@ -- ghost trace of one serveConn activation
//@ ghost var lastHandshakeErr error
//@ ghost var lastNegotiated string
//@ ghostfield iface.closed int
//@ ghostfield tls.Conn.tlsClosed int
//@ ghostfield iface.ctxParent any
//@ ghostfield iface.ctxKey any
//@ ghostfield iface.ctxVal any
//@ -- the Metadata bound in a context created by metadata.NewContext
//@ pure func ctxMeta(c context.Context) *metadata.Metadata = unboxptr(metadata.Metadata, ctxVal(c))

//@ func net.Conn.Close :: c -> err
//@   trusted
//@   assigns closed(c)
//@   ensures closed(c) == old(closed(c)) + 1

//@ func net.Conn.RemoteAddr :: c -> a
//@   trusted
//@   pure

//@ func tls.(*Conn).Close :: c -> err
//@   trusted
//@   requires c != nil
//@   assigns c.tlsClosed
//@   ensures c.tlsClosed == old(c.tlsClosed) + 1

//@ func tls.Server :: conn, config -> c
//@   trusted
//@   pure
//@   ensures c != nil && fresh(c) && c.tlsClosed == 0

//@ -- The TLS stack drives the wrapped connection only through its methods; (*HijackClientHelloConn).Read is
//@ -- verified to preserve the capture invariant, so the handshake as a whole preserves it.
//@ func tls.(*Conn).HandshakeContext :: c, ctx -> err
//@   trusted
//@   requires c != nil
//@   assigns lastHandshakeErr, hack.HijackClientHelloConn.expectedLen, bytes.Buffer.view, iface.delivered
//@   ensures lastHandshakeErr == err
//@   ensures forall h *hack.HijackClientHelloConn :: old(inv(h)) ==> inv(h)

//@ func tls.(*Conn).ConnectionState :: c -> cs
//@   trusted
//@   requires c != nil
//@   assigns lastNegotiated
//@   ensures cs.NegotiatedProtocol == lastNegotiated

//@ func context.WithCancel :: parent -> ctx, cancel
//@   trusted
//@   pure
//@   ensures ctx != nil && ctxParent(ctx) == parent

//@ func context.WithTimeout :: parent, d -> ctx, cancel
//@   trusted
//@   pure
//@   ensures ctx != nil && ctxParent(ctx) == parent

//@ func context.Background :: -> ctx
//@   trusted
//@   pure
//@   ensures ctx != nil

//@ func context.WithValue :: parent, key, val -> ctx
//@   trusted
//@   pure
//@   ensures ctx != nil && ctxParent(ctx) == parent && ctxKey(ctx) == key && ctxVal(ctx) == val

//@ func context.Context.Done :: c -> ch
//@   trusted
//@   pure

//@ -- strconv / bytes / crypto / encoding ----------------------------------------

//@ -- dec(n): decimal representation of n (uninterpreted; fmt %d and strconv.AppendInt(…,10) both produce it)
//@ axiom [dec-nonempty] forall n int :: len(dec(n)) >= 1
//@ axiom [dec-ends-in-digit] forall n int :: 48 <= dec(n)[len(dec(n))-1] && dec(n)[len(dec(n))-1] <= 57

//@ func strconv.AppendInt :: dst, i, base -> result
//@   trusted
//@   pure
//@   requires base == 10
//@   ensures result == dst ++ dec(i)

//@ func bytes.TrimSuffix :: s, suffix -> result
//@   trusted
//@   pure
//@   ensures result == ite(hasSuffix(s, suffix), s[:len(s)-len(suffix)], s)

//@ pure func md5sum(b seq[byte]) seq[byte]
//@ pure func hexstr(b seq[byte]) string
//@ axiom [md5-len] forall b seq[byte] :: len(md5sum(b)) == 16

//@ func md5.Sum :: data -> sum
//@   trusted
//@   pure
//@   ensures sum == md5sum(data)

//@ func hex.EncodeToString :: src -> result
//@   trusted
//@   pure
//@   ensures result == hexstr(src)

//@ -- encoding/binary, io ----------------------------------------------------------
//@ pure func be16(b seq[byte]) int = b[0]*256 + b[1]
//@ pure func be32(b seq[byte]) int = b[0]*16777216 + b[1]*65536 + b[2]*256 + b[3]

//@ func binary.bigEndian.Uint16 :: o, b -> v
//@   trusted
//@   pure
//@   requires [be-uint16-len] len(b) >= 2
//@   ensures v == be16(b)

//@ func binary.bigEndian.Uint32 :: o, b -> v
//@   trusted
//@   pure
//@   requires [be-uint32-len] len(b) >= 4
//@   ensures v == be32(b)

//@ axiom [io-eof-sentinel] io.ErrUnexpectedEOF != nil

//@ -- bytes read from an io.Reader so far (ghost history)
//@ ghostfield iface.consumed seq[byte]

//@ func io.ReadFull :: r, buf -> n, err
//@   trusted
//@   assigns post(buf), consumed(r)
//@   ensures err == nil ==> n == len(buf) && consumed(r) == old(consumed(r)) ++ post(buf)
//@   ensures err != nil ==> n < len(buf) || len(buf) == 0

//@ -- crypto/sha256, hash, io.Writer, utf-8 ---------------------------------------------------------------
//@ pure func sha256sum(b seq[byte]) seq[byte]
//@ axiom [sha256-len] forall b seq[byte] :: len(sha256sum(b)) == 32
//@ axiom [hex-of-bytes-len] forall b seq[byte] :: len(fmtxs("", b)) == 2 * len(b)
//@ axiom [utf8-two-bytes] forall c int :: len(utf8enc(c)) >= 1 && (c >= 128 ==> utf8enc(c)[0] > 127)
//@ ghostfield iface.written seq[byte]
//@ ghostfield iface.isSha256 bool

//@ func sha256.New :: -> h
//@   trusted
//@   pure
//@   ensures h != nil && isSha256(h) && len(written(h)) == 0

//@ func io.Writer.Write :: w, p -> n, err
//@   trusted
//@   assigns written(w)
//@   ensures err == nil ==> n == len(p) && written(w) == old(written(w)) ++ p
//@   ensures isSha256(w) ==> err == nil

//@ func hash.Hash.Sum :: h, b -> out
//@   trusted
//@   pure
//@   ensures isSha256(h) ==> out == b ++ sha256sum(written(h))

//@ func io.WriteString :: w, s -> n, err
//@   trusted
//@   pure
//@   requires [writer-non-nil] w != nil

//@ -- time / log / request context / prometheus ------------------------------------------------------------
//@ pure func durationOf(s string) time.Duration
//@ func time.ParseDuration :: s -> d, err
//@   trusted
//@   pure
//@   ensures err == nil ==> d == durationOf(s)

//@ -- Fatalf logs and exits the process: it does not return
//@ func log.(*Logger).Fatalf :: l, format, v
//@   trusted
//@   pure
//@   ensures false

//@ ghostfield http.Request.reqCtx context.Context
//@ func http.(*Request).Context :: r -> ctx
//@   trusted
//@   pure
//@   requires r != nil
//@   ensures ctx == r.reqCtx

//@ ghostfield iface.hasMeta bool
//@ -- what an http.Handler was handed (trace of the last ServeHTTP call made by fingerproxy code)
//@ ghost var handlerSawTLS bool
//@ ghost var handlerCalls int
//@ func http.Handler.ServeHTTP :: h, w, r
//@   trusted
//@   assigns handlerSawTLS, handlerCalls
//@   ensures handlerSawTLS == (r.TLS != nil) && handlerCalls == old(handlerCalls) + 1

//@ func http.(*ServeMux).ServeHTTP :: mux, w, r
//@   trusted
//@   assigns handlerSawTLS, handlerCalls
//@   ensures handlerSawTLS == (r.TLS != nil) && handlerCalls == old(handlerCalls) + 1

//@ func prometheus.Observer.Observe :: o, v
//@   trusted
//@   pure

//@ axiom [default-transport-is-http-transport] isptr(http.Transport, http.DefaultTransport) && unboxptr(http.Transport, http.DefaultTransport) != nil

//@ -- utls (github.com/refraction-networking/utls) and tlsx: the ClientHello parsers are assumed -------------
//@ ghostfield iface.extID uint16
//@ ghostfield iface.extLen int
//@ func github.com/refraction-networking/utls.TLSExtension.Len :: e -> n
//@   trusted
//@   pure
//@   ensures n == extLen(e) && n >= 0
//@ func github.com/refraction-networking/utls.TLSExtension.Read :: e, p -> n, err
//@   trusted
//@   assigns post(p)
//@   ensures 0 <= n && n <= len(p)
//@   ensures n >= 2 ==> post(p)[0]*256 + post(p)[1] == extID(e)
//@ func errors.Is :: err, target -> ok
//@   trusted
//@   pure

//@ -- sync, fsnotify, tls.LoadX509KeyPair (certwatcher) ----------------------------------------------------
//@ func sync.(*RWMutex).Lock
//@   trusted
//@   pure
//@ func sync.(*RWMutex).Unlock
//@   trusted
//@   pure
//@ func sync.(*RWMutex).RLock
//@   trusted
//@   pure
//@ func sync.(*RWMutex).RUnlock
//@   trusted
//@   pure

//@ -- ghost trace of the certificate watcher: 1 = watch (re-)added for a path, 2 = key pair loaded from disk
//@ ghost var cwlog seq[int]
//@ ghost var lastWatched string
//@ -- the pair most recently loaded successfully (LoadX509KeyPair only succeeds for a certificate and key that match)
//@ ghost var lastLoadedPair tls.Certificate

//@ func tls.LoadX509KeyPair :: certFile, keyFile -> cert, err
//@   trusted
//@   assigns cwlog, lastLoadedPair
//@   ensures cwlog == old(cwlog) ++ seq[int]{2}
//@   ensures err == nil ==> lastLoadedPair == cert
//@   ensures err != nil ==> lastLoadedPair == old(lastLoadedPair)

//@ ghost var watchedNames seq[string]
//@ func fsnotify.(*Watcher).Add :: w, name -> err
//@   trusted
//@   assigns cwlog, lastWatched, watchedNames
//@   ensures cwlog == old(cwlog) ++ seq[int]{1} && lastWatched == name && watchedNames == old(watchedNames) ++ seq[string]{name}

//@ func fsnotify.NewWatcher :: -> w, err
//@   trusted
//@   pure
//@   ensures err == nil ==> w != nil

//@ -- deadlines: ghost record of the last deadline call that reached a connection: which connection, which direction
//@ -- (1 read, 2 write, 3 both) and the instant
//@ ghost var dlConn net.Conn
//@ ghost var dlKind int
//@ ghost var dlTime time.Time
//@ func net.Conn.SetReadDeadline :: c, t -> err
//@   trusted
//@   assigns dlConn, dlKind, dlTime
//@   ensures dlConn == c && dlKind == 1 && dlTime == t
//@ func net.Conn.SetWriteDeadline :: c, t -> err
//@   trusted
//@   assigns dlConn, dlKind, dlTime
//@   ensures dlConn == c && dlKind == 2 && dlTime == t
//@ func net.Conn.SetDeadline :: c, t -> err
//@   trusted
//@   assigns dlConn, dlKind, dlTime
//@   ensures dlConn == c && dlKind == 3 && dlTime == t
//@ func tls.(*Conn).SetReadDeadline :: c, t -> err
//@   trusted
//@   assigns dlConn, dlKind, dlTime
//@   ensures isptr(tls.Conn, dlConn) && unboxptr(tls.Conn, dlConn) == c && dlKind == 1 && dlTime == t
//@ func tls.(*Conn).SetWriteDeadline :: c, t -> err
//@   trusted
//@   assigns dlConn, dlKind, dlTime
//@   ensures isptr(tls.Conn, dlConn) && unboxptr(tls.Conn, dlConn) == c && dlKind == 2 && dlTime == t
//@ func tls.(*Conn).SetDeadline :: c, t -> err
//@   trusted
//@   assigns dlConn, dlKind, dlTime
//@   ensures isptr(tls.Conn, dlConn) && unboxptr(tls.Conn, dlConn) == c && dlKind == 3 && dlTime == t
