//go:build verif

// Assumed (trusted) contracts of standard-library and third-party functions.
// Every contract in this file is an ASSUMPTION: it is listed in the evidence
// under trusted_base whenever a discharged obligation used it.
package contracts

//@ ghostfield bytes.Buffer.view seq[byte]
//@ ghostfield iface.delivered seq[byte]

//@ func bytes.(*Buffer).Len :: b -> result
//@   trusted
//@   pure
//@   ensures result == len(b.view)

//@ func bytes.(*Buffer).Bytes :: b -> result
//@   trusted
//@   pure
//@   ensures result == b.view

//@ func bytes.(*Buffer).String :: b -> result
//@   trusted
//@   pure
//@   ensures result == b.view

//@ func bytes.(*Buffer).Write :: b, p -> n, err
//@   trusted
//@   assigns b.view
//@   ensures b.view == old(b.view) ++ p
//@   ensures n == len(p) && err == nil

//@ func bytes.(*Buffer).WriteString :: b, s -> n, err
//@   trusted
//@   assigns b.view
//@   ensures b.view == old(b.view) ++ s
//@   ensures n == len(s) && err == nil

//@ func bytes.(*Buffer).WriteByte :: b, c -> err
//@   trusted
//@   assigns b.view
//@   ensures b.view == old(b.view) ++ unit(c)
//@   ensures err == nil

//@ func bytes.(*Buffer).Truncate :: b, n
//@   trusted
//@   requires [truncate-in-range] 0 <= n && n <= len(b.view)
//@   assigns b.view
//@   ensures b.view == old(b.view)[:n]

//@ func net.Conn.Read :: c, b -> n, err
//@   trusted
//@   assigns post(b), delivered(c)
//@   ensures 0 <= n && n <= len(b)
//@   ensures err != nil ==> n == 0
//@   ensures delivered(c) == old(delivered(c)) ++ post(b)[:n]

//@ func fmt.Errorf :: format, a -> err
//@   trusted
//@   pure
//@   ensures err != nil

//@ func errors.New :: text -> err
//@   trusted
//@   pure
//@   ensures err != nil

//@ func strings.HasPrefix :: s, prefix -> result
//@   trusted
//@   pure
//@   ensures result <==> hasPrefix(s, prefix)
