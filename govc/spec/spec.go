// Package spec: the contract language. Contract files are comment-only Go files
// (build tag verif) whose `//@` lines are parsed here.
package spec

import (
	"fmt"
	"os"
	"strconv"
	"strings"
	"unicode"
)

// ---------- expression AST ----------

type Expr interface{ String() string }

type (
	Ident   struct{ Name string }
	IntLit  struct{ Val string }
	StrLit  struct{ Val string }
	BoolLit struct{ Val bool }
	Unary   struct {
		Op string
		X  Expr
	}
	Binary struct {
		Op   string
		X, Y Expr
	}
	Call struct {
		Fun  Expr
		Args []Expr
	}
	Index struct{ X, I Expr }
	Slice struct{ X, Lo, Hi Expr }
	Sel   struct {
		X    Expr
		Name string
	}
	Quant struct {
		Kind string // forall | exists
		Vars []Param
		Body Expr
	}
	TypeAssert struct { // x.(T) used as predicate: dyn type of x is T
		X Expr
		T *Type
	}
	SeqLit struct {
		Elem  *Type
		Elems []Expr
	}
)

type Param struct {
	Name string
	Type *Type
}

// Type in specs.
type Type struct {
	Kind string // name | seq | slice | ptr | set | map
	Name string // for Kind name (may be qualified: pkg.T)
	Elem *Type
	Key  *Type
}

func (t *Type) String() string {
	if t == nil {
		return "<nil>"
	}
	switch t.Kind {
	case "name":
		return t.Name
	case "seq":
		return "seq[" + t.Elem.String() + "]"
	case "slice":
		return "[]" + t.Elem.String()
	case "ptr":
		return "*" + t.Elem.String()
	case "set":
		return "set[" + t.Elem.String() + "]"
	case "map":
		return "map[" + t.Key.String() + "]" + t.Elem.String()
	}
	return "?"
}

func (e *Ident) String() string   { return e.Name }
func (e *IntLit) String() string  { return e.Val }
func (e *StrLit) String() string  { return strconv.Quote(e.Val) }
func (e *BoolLit) String() string { return fmt.Sprint(e.Val) }
func (e *Unary) String() string   { return e.Op + e.X.String() }
func (e *Binary) String() string  { return "(" + e.X.String() + " " + e.Op + " " + e.Y.String() + ")" }
func (e *Call) String() string {
	var a []string
	for _, x := range e.Args {
		a = append(a, x.String())
	}
	return e.Fun.String() + "(" + strings.Join(a, ", ") + ")"
}
func (e *Index) String() string { return e.X.String() + "[" + e.I.String() + "]" }
func (e *Slice) String() string {
	lo, hi := "", ""
	if e.Lo != nil {
		lo = e.Lo.String()
	}
	if e.Hi != nil {
		hi = e.Hi.String()
	}
	return e.X.String() + "[" + lo + ":" + hi + "]"
}
func (e *Sel) String() string { return e.X.String() + "." + e.Name }
func (e *Quant) String() string {
	var v []string
	for _, p := range e.Vars {
		v = append(v, p.Name+" "+p.Type.String())
	}
	return "(" + e.Kind + " " + strings.Join(v, ", ") + " :: " + e.Body.String() + ")"
}
func (e *TypeAssert) String() string { return e.X.String() + ".(" + e.T.String() + ")" }
func (e *SeqLit) String() string {
	var a []string
	for _, x := range e.Elems {
		a = append(a, x.String())
	}
	return "seq[" + e.Elem.String() + "]{" + strings.Join(a, ", ") + "}"
}

// ---------- lexer ----------

type token struct {
	kind string // ident int str char op eof
	text string
	pos  int
}

func lex(src string) ([]token, error) {
	var toks []token
	i := 0
	ops := []string{"<==>", "==>", "::", "++", "==", "!=", "<=", ">=", "&&", "||", "<<", ">>", "&^",
		"(", ")", "[", "]", "{", "}", ",", ".", ":", "+", "-", "*", "/", "%", "<", ">", "!", "&", "|", "^", "=", "$", "?", "#"}
	for i < len(src) {
		c := src[i]
		if c == ' ' || c == '\t' || c == '\n' || c == '\r' {
			i++
			continue
		}
		if unicode.IsLetter(rune(c)) || c == '_' || c == '$' {
			j := i + 1
			for j < len(src) && (unicode.IsLetter(rune(src[j])) || unicode.IsDigit(rune(src[j])) || src[j] == '_' || src[j] == '$' || src[j] == '#') {
				j++
			}
			toks = append(toks, token{"ident", src[i:j], i})
			i = j
			continue
		}
		if unicode.IsDigit(rune(c)) {
			j := i + 1
			for j < len(src) && (unicode.IsDigit(rune(src[j])) || unicode.IsLetter(rune(src[j])) || src[j] == '_') {
				j++
			}
			toks = append(toks, token{"int", src[i:j], i})
			i = j
			continue
		}
		if c == '"' {
			j := i + 1
			for j < len(src) && src[j] != '"' {
				if src[j] == '\\' {
					j++
				}
				j++
			}
			if j >= len(src) {
				return nil, fmt.Errorf("unterminated string")
			}
			s, err := strconv.Unquote(src[i : j+1])
			if err != nil {
				return nil, err
			}
			toks = append(toks, token{"str", s, i})
			i = j + 1
			continue
		}
		if c == '\'' {
			j := i + 1
			for j < len(src) && src[j] != '\'' {
				if src[j] == '\\' {
					j++
				}
				j++
			}
			r, _, _, err := strconv.UnquoteChar(src[i+1:j], '\'')
			if err != nil {
				return nil, err
			}
			toks = append(toks, token{"int", strconv.Itoa(int(r)), i})
			i = j + 1
			continue
		}
		matched := false
		for _, op := range ops {
			if strings.HasPrefix(src[i:], op) {
				toks = append(toks, token{"op", op, i})
				i += len(op)
				matched = true
				break
			}
		}
		if !matched {
			return nil, fmt.Errorf("unexpected character %q at %d in %q", c, i, src)
		}
	}
	toks = append(toks, token{"eof", "", len(src)})
	return toks, nil
}

// ---------- parser ----------

type parser struct {
	toks []token
	p    int
	src  string
}

func (p *parser) peek() token { return p.toks[p.p] }
func (p *parser) next() token { t := p.toks[p.p]; p.p++; return t }
func (p *parser) isOp(s string) bool {
	t := p.peek()
	return t.kind == "op" && t.text == s
}
func (p *parser) accept(s string) bool {
	if p.isOp(s) {
		p.p++
		return true
	}
	return false
}
func (p *parser) expect(s string) error {
	if !p.accept(s) {
		return fmt.Errorf("expected %q at %d in %q (got %q)", s, p.peek().pos, p.src, p.peek().text)
	}
	return nil
}

func ParseExpr(src string) (Expr, error) {
	toks, err := lex(src)
	if err != nil {
		return nil, err
	}
	p := &parser{toks: toks, src: src}
	e, err := p.expr()
	if err != nil {
		return nil, err
	}
	if p.peek().kind != "eof" {
		return nil, fmt.Errorf("trailing tokens at %d in %q", p.peek().pos, src)
	}
	return e, nil
}

func (p *parser) expr() (Expr, error) { return p.iff() }

func (p *parser) iff() (Expr, error) {
	x, err := p.implies()
	if err != nil {
		return nil, err
	}
	for p.accept("<==>") {
		y, err := p.implies()
		if err != nil {
			return nil, err
		}
		x = &Binary{"<==>", x, y}
	}
	return x, nil
}

func (p *parser) implies() (Expr, error) {
	x, err := p.binary(0)
	if err != nil {
		return nil, err
	}
	if p.accept("==>") {
		y, err := p.implies()
		if err != nil {
			return nil, err
		}
		return &Binary{"==>", x, y}, nil
	}
	return x, nil
}

var precs = [][]string{
	{"||"},
	{"&&"},
	{"==", "!=", "<", "<=", ">", ">="},
	{"+", "-", "++", "|", "^"},
	{"*", "/", "%", "<<", ">>", "&", "&^"},
}

func (p *parser) binary(level int) (Expr, error) {
	if level == len(precs) {
		return p.unary()
	}
	x, err := p.binary(level + 1)
	if err != nil {
		return nil, err
	}
	for {
		found := ""
		for _, op := range precs[level] {
			if p.isOp(op) {
				found = op
				break
			}
		}
		if found == "" {
			return x, nil
		}
		p.next()
		y, err := p.binary(level + 1)
		if err != nil {
			return nil, err
		}
		x = &Binary{found, x, y}
	}
}

func (p *parser) unary() (Expr, error) {
	if p.accept("!") {
		x, err := p.unary()
		if err != nil {
			return nil, err
		}
		return &Unary{"!", x}, nil
	}
	if p.accept("-") {
		x, err := p.unary()
		if err != nil {
			return nil, err
		}
		return &Unary{"-", x}, nil
	}
	return p.postfix()
}

func (p *parser) parseType() (*Type, error) {
	if p.accept("*") {
		e, err := p.parseType()
		if err != nil {
			return nil, err
		}
		return &Type{Kind: "ptr", Elem: e}, nil
	}
	if p.accept("[") {
		if err := p.expect("]"); err != nil {
			return nil, err
		}
		e, err := p.parseType()
		if err != nil {
			return nil, err
		}
		return &Type{Kind: "slice", Elem: e}, nil
	}
	t := p.next()
	if t.kind != "ident" {
		return nil, fmt.Errorf("expected type at %d in %q", t.pos, p.src)
	}
	if t.text == "seq" || t.text == "set" {
		if err := p.expect("["); err != nil {
			return nil, err
		}
		e, err := p.parseType()
		if err != nil {
			return nil, err
		}
		if err := p.expect("]"); err != nil {
			return nil, err
		}
		return &Type{Kind: t.text, Elem: e}, nil
	}
	if t.text == "map" {
		if err := p.expect("["); err != nil {
			return nil, err
		}
		k, err := p.parseType()
		if err != nil {
			return nil, err
		}
		if err := p.expect("]"); err != nil {
			return nil, err
		}
		e, err := p.parseType()
		if err != nil {
			return nil, err
		}
		return &Type{Kind: "map", Key: k, Elem: e}, nil
	}
	name := t.text
	for p.isOp(".") && p.toks[p.p+1].kind == "ident" {
		p.next()
		name += "." + p.next().text
	}
	return &Type{Kind: "name", Name: name}, nil
}

func (p *parser) postfix() (Expr, error) {
	x, err := p.primary()
	if err != nil {
		return nil, err
	}
	for {
		switch {
		case p.accept("."):
			if p.accept("(") {
				t, err := p.parseType()
				if err != nil {
					return nil, err
				}
				if err := p.expect(")"); err != nil {
					return nil, err
				}
				x = &TypeAssert{x, t}
				continue
			}
			t := p.next()
			if t.kind != "ident" {
				return nil, fmt.Errorf("expected field name at %d in %q", t.pos, p.src)
			}
			x = &Sel{x, t.text}
		case p.accept("("):
			var args []Expr
			for !p.isOp(")") {
				a, err := p.expr()
				if err != nil {
					return nil, err
				}
				args = append(args, a)
				if !p.accept(",") {
					break
				}
			}
			if err := p.expect(")"); err != nil {
				return nil, err
			}
			x = &Call{x, args}
		case p.accept("["):
			var lo, hi Expr
			if !p.isOp(":") {
				lo, err = p.expr()
				if err != nil {
					return nil, err
				}
			}
			if p.accept(":") {
				if !p.isOp("]") {
					hi, err = p.expr()
					if err != nil {
						return nil, err
					}
				}
				if err := p.expect("]"); err != nil {
					return nil, err
				}
				x = &Slice{x, lo, hi}
			} else {
				if err := p.expect("]"); err != nil {
					return nil, err
				}
				x = &Index{x, lo}
			}
		default:
			return x, nil
		}
	}
}

func (p *parser) primary() (Expr, error) {
	t := p.next()
	switch t.kind {
	case "int":
		return &IntLit{t.text}, nil
	case "str":
		return &StrLit{t.text}, nil
	case "ident":
		switch t.text {
		case "true":
			return &BoolLit{true}, nil
		case "false":
			return &BoolLit{false}, nil
		case "forall", "exists":
			var vars []Param
			for {
				n := p.next()
				if n.kind != "ident" {
					return nil, fmt.Errorf("expected bound variable at %d in %q", n.pos, p.src)
				}
				ty, err := p.parseType()
				if err != nil {
					return nil, err
				}
				vars = append(vars, Param{n.text, ty})
				if !p.accept(",") {
					break
				}
			}
			if err := p.expect("::"); err != nil {
				return nil, err
			}
			body, err := p.expr()
			if err != nil {
				return nil, err
			}
			return &Quant{t.text, vars, body}, nil
		case "seq":
			if p.isOp("[") {
				p.p--
				ty, err := p.parseType()
				if err != nil {
					return nil, err
				}
				if err := p.expect("{"); err != nil {
					return nil, err
				}
				var elems []Expr
				for !p.isOp("}") {
					a, err := p.expr()
					if err != nil {
						return nil, err
					}
					elems = append(elems, a)
					if !p.accept(",") {
						break
					}
				}
				if err := p.expect("}"); err != nil {
					return nil, err
				}
				return &SeqLit{ty.Elem, elems}, nil
			}
		}
		return &Ident{t.text}, nil
	case "op":
		if t.text == "(" {
			e, err := p.expr()
			if err != nil {
				return nil, err
			}
			if err := p.expect(")"); err != nil {
				return nil, err
			}
			return e, nil
		}
	}
	return nil, fmt.Errorf("unexpected token %q at %d in %q", t.text, t.pos, p.src)
}

// ---------- contract file ----------

type Clause struct {
	Label string   // optional label
	Props []string // property tags on the clause (empty = function's)
	Src   string
	E     Expr
	Line  int
	File  string
}

type LoopSpec struct {
	Ordinal    int
	Invariants []*Clause
	Assigns    []Expr
	Uses       []*Clause // lemma instances assumed at the loop header (lemmas are proved separately)
}

type FuncContract struct {
	Name       string // key: "(*T).m", "f", "pkg.(*T).m", "pkg.Iface.m"
	ParamNames []string
	ResNames   []string
	Props      []string
	Trusted    bool
	Pure       bool
	Inline     bool
	MayPanic   bool
	NoVerify   bool // contract used at call sites only (e.g. trusted)
	Ghosts     []Param
	Requires   []*Clause
	Ensures    []*Clause
	Assigns    []Expr
	AssignsSet bool
	Loops      map[int]*LoopSpec
	Covers     []*Clause
	Cuts       []*CutSpec
	GhostSets  []*GhostSet // ghost assignments executed at every return, before the postconditions are checked
	Uses       []*Clause // lemma instantiations assumed at every return
	Callbacks  []string // function-typed parameters whose calls have no modelled effect (assumption)
	File       string
	Line       int
	Structural []StructClause
	Hints      []string
}

// CutSpec: an intermediate assertion that summarises everything before it (like a loop invariant without a back edge).
// It is placed right after the N-th static call to Callee in the function.
type CutSpec struct {
	Label      string
	Callee     string
	N          int
	Invariants []*Clause
	Uses       []*Clause // lemma instances assumed here; a cut with Uses only does not cut the state
}

// GhostSet: `ghostset target = expr` -- ghost state has no code; this is its assignment.
type GhostSet struct {
	Target Expr
	Value  Expr
	Line   int
}

type StructClause struct {
	Kind  string // confine_recover, guarded, trace...
	Args  []string
	Label string
	Props []string
	Line  int
}

type SpecFunc struct {
	Name   string
	Params []Param
	Result *Type
	Body   Expr // nil = uninterpreted
	Src    string
	File   string
	Line   int
}

type GhostField struct {
	Owner string // Go type name (qualified or local) or "iface"
	Name  string
	Type  *Type
}

type Axiom struct {
	Clause
	IsLemma bool
	Induct  string
}

type File struct {
	Path        string
	Pkg         string
	Funcs       []*FuncContract
	SpecFuncs   []*SpecFunc
	GhostFields []*GhostField
	GhostVars   []Param
	Axioms      []*Axiom
	Guarded     []GuardSpec
	GlobalInvs  []*Clause
	Lemmas      []*LemmaDef
	Writers     []*WritersSpec
}

// WritersSpec: the listed fields of a struct type are written only inside the listed functions (checked by a
// module-wide scan); calls that cannot reach one of those functions therefore leave the fields unchanged.
type WritersSpec struct {
	Props  []string
	Label  string
	Type   string
	Fields []string // empty = all fields
	Only   []string
	Line   int
	File   string
}

// LemmaDef: a named, closed fact over spec functions, proved once (optionally by induction on one integer
// parameter) and instantiated explicitly with `use name(args)` clauses.
type LemmaDef struct {
	UsingApps []Expr // explicit instances l(args) of other lemmas, arguments over this lemma's parameters
	Name   string
	Params []Param
	Using  []string // previously proved lemmas available (universally quantified) in the proof
	Induct string // parameter name ("" = direct proof)
	From   Expr   // lower bound of the induction variable
	Body   Expr
	Props  []string
	Src    string
	File   string
	Line   int
}

type GuardSpec struct {
	Type   string // struct type
	Fields []string
	Lock   string // field name of lock in same struct (or path)
	Props  []string
	Line   int
}

var clauseKeywords = map[string]bool{
	"func": true, "props": true, "trusted": true, "pure": true, "ghost": true, "requires": true, "ensures": true,
	"assigns": true, "may_panic": true, "loop": true, "axiom": true, "lemma": true, "ghostfield": true, "cover": true,
	"ghostset": true, "writers": true, "use": true, "callback": true, "cut": true, "structural": true, "inline": true, "guarded_by": true, "broadcast_only": true, "hint": true, "spec": true, "globalinv": true,
}

// splitLabel parses an optional "[P1,P2:label]" prefix.
func splitLabel(s string) (props []string, label, rest string) {
	s = strings.TrimSpace(s)
	if !strings.HasPrefix(s, "[") {
		return nil, "", s
	}
	end := strings.Index(s, "]")
	if end < 0 {
		return nil, "", s
	}
	inner := s[1:end]
	rest = strings.TrimSpace(s[end+1:])
	if i := strings.Index(inner, ":"); i >= 0 {
		for _, p := range strings.Split(inner[:i], ",") {
			if p = strings.TrimSpace(p); p != "" {
				props = append(props, p)
			}
		}
		label = strings.TrimSpace(inner[i+1:])
	} else {
		label = strings.TrimSpace(inner)
	}
	return
}

func ParseFile(path string) (*File, error) {
	data, err := os.ReadFile(path)
	if err != nil {
		return nil, err
	}
	f := &File{Path: path}
	type rawLine struct {
		text string
		line int
	}
	var lines []rawLine
	for i, l := range strings.Split(string(data), "\n") {
		t := strings.TrimSpace(l)
		if strings.HasPrefix(t, "package ") {
			f.Pkg = strings.TrimSpace(strings.TrimPrefix(t, "package "))
		}
		if !strings.HasPrefix(t, "//@") {
			continue
		}
		t = strings.TrimSpace(strings.TrimPrefix(t, "//@"))
		if t == "" || strings.HasPrefix(t, "--") {
			continue
		}
		// strip trailing comment " -- ..."
		if k := strings.Index(t, " -- "); k >= 0 {
			t = strings.TrimSpace(t[:k])
		}
		first := t
		if k := strings.IndexAny(t, " \t"); k >= 0 {
			first = t[:k]
		}
		if clauseKeywords[first] || len(lines) == 0 {
			lines = append(lines, rawLine{t, i + 1})
		} else {
			lines[len(lines)-1].text += " " + t
		}
	}
	var cur *FuncContract
	mkClause := func(rest string, line int) (*Clause, error) {
		props, label, src := splitLabel(rest)
		e, err := ParseExpr(src)
		if err != nil {
			return nil, fmt.Errorf("%s:%d: %v", path, line, err)
		}
		return &Clause{Label: label, Props: props, Src: src, E: e, Line: line, File: path}, nil
	}
	for _, rl := range lines {
		t := rl.text
		kw, rest := t, ""
		if k := strings.IndexAny(t, " \t"); k >= 0 {
			kw, rest = t[:k], strings.TrimSpace(t[k+1:])
		}
		switch kw {
		case "func":
			cur = &FuncContract{Loops: map[int]*LoopSpec{}, File: path, Line: rl.line}
			// optional "(p1, p2) (r1, r2)" naming at end: detect " :: names"
			if k := strings.Index(rest, " :: "); k >= 0 {
				names := strings.TrimSpace(rest[k+4:])
				rest = strings.TrimSpace(rest[:k])
				parts := strings.Split(names, "->")
				for _, n := range strings.Split(parts[0], ",") {
					if n = strings.TrimSpace(n); n != "" {
						cur.ParamNames = append(cur.ParamNames, n)
					}
				}
				if len(parts) > 1 {
					for _, n := range strings.Split(parts[1], ",") {
						if n = strings.TrimSpace(n); n != "" {
							cur.ResNames = append(cur.ResNames, n)
						}
					}
				}
			}
			cur.Name = rest
			f.Funcs = append(f.Funcs, cur)
		case "props":
			if cur == nil {
				return nil, fmt.Errorf("%s:%d: props outside func", path, rl.line)
			}
			for _, p := range strings.Split(rest, ",") {
				if p = strings.TrimSpace(p); p != "" {
					cur.Props = append(cur.Props, p)
				}
			}
		case "trusted":
			cur.Trusted = true
		case "inline":
			cur.Inline = true
		case "pure":
			if strings.HasPrefix(rest, "func ") {
				sf, err := parseSpecFunc(strings.TrimPrefix(rest, "func "), path, rl.line)
				if err != nil {
					return nil, err
				}
				f.SpecFuncs = append(f.SpecFuncs, sf)
			} else {
				cur.Pure = true
			}
		case "spec":
			// "spec func ..." synonym
			if strings.HasPrefix(rest, "func ") {
				sf, err := parseSpecFunc(strings.TrimPrefix(rest, "func "), path, rl.line)
				if err != nil {
					return nil, err
				}
				f.SpecFuncs = append(f.SpecFuncs, sf)
			}
		case "may_panic":
			cur.MayPanic = true
		case "hint":
			cur.Hints = append(cur.Hints, rest)
		case "ghost":
			if strings.HasPrefix(rest, "var ") {
				ps, err := parseParams(strings.TrimPrefix(rest, "var "))
				if err != nil {
					return nil, fmt.Errorf("%s:%d: %v", path, rl.line, err)
				}
				f.GhostVars = append(f.GhostVars, ps...)
			} else {
				ps, err := parseParams(rest)
				if err != nil {
					return nil, fmt.Errorf("%s:%d: %v", path, rl.line, err)
				}
				cur.Ghosts = append(cur.Ghosts, ps...)
			}
		case "ghostfield":
			// ghostfield Owner.name type
			k := strings.IndexAny(rest, " \t")
			if k < 0 {
				return nil, fmt.Errorf("%s:%d: bad ghostfield", path, rl.line)
			}
			on, ty := rest[:k], strings.TrimSpace(rest[k+1:])
			d := strings.LastIndex(on, ".")
			toks, err := lex(ty)
			if err != nil {
				return nil, err
			}
			pp := &parser{toks: toks, src: ty}
			pt, err := pp.parseType()
			if err != nil {
				return nil, fmt.Errorf("%s:%d: %v", path, rl.line, err)
			}
			f.GhostFields = append(f.GhostFields, &GhostField{Owner: on[:d], Name: on[d+1:], Type: pt})
		case "requires", "ensures", "cover":
			if cur == nil {
				return nil, fmt.Errorf("%s:%d: clause outside func", path, rl.line)
			}
			c, err := mkClause(rest, rl.line)
			if err != nil {
				return nil, err
			}
			switch kw {
			case "requires":
				cur.Requires = append(cur.Requires, c)
			case "ensures":
				cur.Ensures = append(cur.Ensures, c)
			case "cover":
				cur.Covers = append(cur.Covers, c)
			}
		case "assigns":
			cur.AssignsSet = true
			if rest != "nothing" && rest != "" {
				es, err := parseExprList(rest)
				if err != nil {
					return nil, fmt.Errorf("%s:%d: %v", path, rl.line, err)
				}
				cur.Assigns = append(cur.Assigns, es...)
			}
		case "ghostset":
			eq := strings.Index(rest, " = ")
			if eq < 0 {
				return nil, fmt.Errorf("%s:%d: ghostset needs 'target = expr'", path, rl.line)
			}
			te, err := ParseExpr(rest[:eq])
			if err != nil {
				return nil, fmt.Errorf("%s:%d: %v", path, rl.line, err)
			}
			ve, err := ParseExpr(rest[eq+3:])
			if err != nil {
				return nil, fmt.Errorf("%s:%d: %v", path, rl.line, err)
			}
			cur.GhostSets = append(cur.GhostSets, &GhostSet{Target: te, Value: ve, Line: rl.line})
		case "writers":
			// writers [props:label] Type fields f1,f2 only fn1,fn2
			props, label, r := splitLabel(rest)
			fs := strings.Fields(r)
			ws := &WritersSpec{Props: props, Label: label, Line: rl.line, File: path}
			if len(fs) < 3 {
				return nil, fmt.Errorf("%s:%d: bad writers clause", path, rl.line)
			}
			ws.Type = fs[0]
			k := 1
			if fs[k] == "fields" {
				if fs[k+1] != "*" {
					ws.Fields = strings.Split(fs[k+1], ",")
				}
				k += 2
			}
			if k < len(fs) && fs[k] == "only" {
				for _, n := range strings.Split(strings.Join(fs[k+1:], ""), ",") {
					if n != "" {
						ws.Only = append(ws.Only, n)
					}
				}
			}
			f.Writers = append(f.Writers, ws)
		case "use":
			c, err := mkClause(rest, rl.line)
			if err != nil {
				return nil, err
			}
			cur.Uses = append(cur.Uses, c)
		case "callback":
			fs := strings.Fields(rest)
			if len(fs) >= 1 {
				cur.Callbacks = append(cur.Callbacks, fs[0])
			}
		case "cut":
			// cut <label> after <callee>#<n> invariant [..] expr
			parts := strings.SplitN(rest, " ", 5)
			if len(parts) < 5 || parts[1] != "after" || (parts[3] != "invariant" && parts[3] != "use") {
				return nil, fmt.Errorf("%s:%d: bad cut clause (want: cut <label> after <callee>#<n> invariant <expr>)", path, rl.line)
			}
			cn := strings.SplitN(parts[2], "#", 2)
			n := 1
			if len(cn) == 2 {
				n, _ = strconv.Atoi(cn[1])
			}
			var cs *CutSpec
			for _, c := range cur.Cuts {
				if c.Label == parts[0] {
					cs = c
				}
			}
			if cs == nil {
				cs = &CutSpec{Label: parts[0], Callee: cn[0], N: n}
				cur.Cuts = append(cur.Cuts, cs)
			}
			c, err := mkClause(parts[4], rl.line)
			if err != nil {
				return nil, err
			}
			if parts[3] == "use" {
				// a lemma instance assumed at this point (no cut of the state)
				cs.Uses = append(cs.Uses, c)
			} else {
				cs.Invariants = append(cs.Invariants, c)
			}
		case "loop":
			// loop N invariant [..] expr | loop N assigns ...
			parts := strings.SplitN(rest, " ", 3)
			if len(parts) < 3 {
				return nil, fmt.Errorf("%s:%d: bad loop clause", path, rl.line)
			}
			n, err := strconv.Atoi(parts[0])
			if err != nil {
				return nil, fmt.Errorf("%s:%d: bad loop ordinal", path, rl.line)
			}
			ls := cur.Loops[n]
			if ls == nil {
				ls = &LoopSpec{Ordinal: n}
				cur.Loops[n] = ls
			}
			switch parts[1] {
			case "invariant":
				c, err := mkClause(parts[2], rl.line)
				if err != nil {
					return nil, err
				}
				ls.Invariants = append(ls.Invariants, c)
			case "assigns":
				es, err := parseExprList(parts[2])
				if err != nil {
					return nil, fmt.Errorf("%s:%d: %v", path, rl.line, err)
				}
				ls.Assigns = append(ls.Assigns, es...)
			case "use":
				c, err := mkClause(parts[2], rl.line)
				if err != nil {
					return nil, err
				}
				ls.Uses = append(ls.Uses, c)
			default:
				return nil, fmt.Errorf("%s:%d: bad loop clause kind %q", path, rl.line, parts[1])
			}
		case "axiom", "lemma":
			if kw == "lemma" {
				if ld, ok, err := parseLemmaDef(rest, path, rl.line); err != nil {
					return nil, err
				} else if ok {
					f.Lemmas = append(f.Lemmas, ld)
					continue
				}
			}
			ind := ""
			if strings.HasPrefix(rest, "induction ") {
				r2 := strings.TrimPrefix(rest, "induction ")
				k := strings.IndexAny(r2, " \t")
				ind, rest = r2[:k], strings.TrimSpace(r2[k+1:])
			}
			c, err := mkClause(rest, rl.line)
			if err != nil {
				return nil, err
			}
			f.Axioms = append(f.Axioms, &Axiom{Clause: *c, IsLemma: kw == "lemma", Induct: ind})
		case "globalinv":
			c, err := mkClause(rest, rl.line)
			if err != nil {
				return nil, err
			}
			f.GlobalInvs = append(f.GlobalInvs, c)
		case "structural":
			props, label, r := splitLabel(rest)
			fs := strings.Fields(r)
			if len(fs) == 0 {
				return nil, fmt.Errorf("%s:%d: empty structural clause", path, rl.line)
			}
			cur.Structural = append(cur.Structural, StructClause{Kind: fs[0], Args: fs[1:], Label: label, Props: props, Line: rl.line})
		case "guarded_by":
			// guarded_by [C07:label] Type.lock fields f1,f2
			props, _, r := splitLabel(rest)
			fs := strings.Fields(r)
			if len(fs) < 2 {
				return nil, fmt.Errorf("%s:%d: bad guarded_by", path, rl.line)
			}
			d := strings.LastIndex(fs[0], ".")
			f.Guarded = append(f.Guarded, GuardSpec{Type: fs[0][:d], Lock: fs[0][d+1:], Fields: strings.Split(fs[1], ","), Props: props, Line: rl.line})
		case "broadcast_only":
			// broadcast_only [C12:label] Type.condField -- waiters of different kinds share the condition variable:
			// every wake-up anywhere in the module must be a Broadcast, never a Signal
			props, _, r := splitLabel(rest)
			fs := strings.Fields(r)
			d := -1
			if len(fs) == 1 {
				d = strings.LastIndex(fs[0], ".")
			}
			if d < 0 {
				return nil, fmt.Errorf("%s:%d: bad broadcast_only", path, rl.line)
			}
			f.Guarded = append(f.Guarded, GuardSpec{Type: fs[0][:d], Lock: fs[0][d+1:], Fields: []string{"@broadcast_only"}, Props: props, Line: rl.line})
		default:
			return nil, fmt.Errorf("%s:%d: unknown clause %q", path, rl.line, kw)
		}
	}
	return f, nil
}

func parseExprList(src string) ([]Expr, error) {
	toks, err := lex(src)
	if err != nil {
		return nil, err
	}
	p := &parser{toks: toks, src: src}
	var out []Expr
	for {
		e, err := p.expr()
		if err != nil {
			return nil, err
		}
		out = append(out, e)
		if !p.accept(",") {
			break
		}
	}
	if p.peek().kind != "eof" {
		return nil, fmt.Errorf("trailing tokens in %q", src)
	}
	return out, nil
}

func parseParams(src string) ([]Param, error) {
	toks, err := lex(src)
	if err != nil {
		return nil, err
	}
	p := &parser{toks: toks, src: src}
	var out []Param
	for p.peek().kind != "eof" {
		n := p.next()
		if n.kind != "ident" {
			return nil, fmt.Errorf("expected name in %q", src)
		}
		t, err := p.parseType()
		if err != nil {
			return nil, err
		}
		out = append(out, Param{n.text, t})
		if !p.accept(",") {
			break
		}
	}
	return out, nil
}

// parseSpecFunc parses `name(a T, b U) R = expr` or without body.
func parseSpecFunc(src, path string, line int) (*SpecFunc, error) {
	toks, err := lex(src)
	if err != nil {
		return nil, fmt.Errorf("%s:%d: %v", path, line, err)
	}
	p := &parser{toks: toks, src: src}
	n := p.next()
	if n.kind != "ident" {
		return nil, fmt.Errorf("%s:%d: expected spec function name", path, line)
	}
	sf := &SpecFunc{Name: n.text, Src: src, File: path, Line: line}
	if err := p.expect("("); err != nil {
		return nil, fmt.Errorf("%s:%d: %v", path, line, err)
	}
	for !p.isOp(")") {
		pn := p.next()
		pt, err := p.parseType()
		if err != nil {
			return nil, fmt.Errorf("%s:%d: %v", path, line, err)
		}
		sf.Params = append(sf.Params, Param{pn.text, pt})
		if !p.accept(",") {
			break
		}
	}
	if err := p.expect(")"); err != nil {
		return nil, fmt.Errorf("%s:%d: %v", path, line, err)
	}
	rt, err := p.parseType()
	if err != nil {
		return nil, fmt.Errorf("%s:%d: %v", path, line, err)
	}
	sf.Result = rt
	if p.accept("=") {
		e, err := p.expr()
		if err != nil {
			return nil, fmt.Errorf("%s:%d: %v", path, line, err)
		}
		sf.Body = e
	}
	if p.peek().kind != "eof" {
		return nil, fmt.Errorf("%s:%d: trailing tokens in spec func", path, line)
	}
	return sf, nil
}

// parseLemmaDef parses `[props:label] name(params) [induction v from lo] = body`.
func parseLemmaDef(rest, path string, line int) (*LemmaDef, bool, error) {
	props, _, src := splitLabel(rest)
	eq := strings.Index(src, " = ")
	if eq < 0 || !strings.Contains(src[:eq], "(") {
		return nil, false, nil
	}
	head, body := src[:eq], src[eq+3:]
	ld := &LemmaDef{Props: props, Src: src, File: path, Line: line}
	if k := strings.Index(head, " using "); k >= 0 {
		// items are lemma names (assumed for all arguments) or applications l(args) (assumed for these arguments)
		depth, start := 0, 0
		us := head[k+len(" using "):]
		var items []string
		for i, ch := range us {
			switch ch {
			case '(', '[', '{':
				depth++
			case ')', ']', '}':
				depth--
			case ',':
				if depth == 0 {
					items = append(items, us[start:i])
					start = i + 1
				}
			}
		}
		items = append(items, us[start:])
		for _, n := range items {
			n = strings.TrimSpace(n)
			if n == "" {
				continue
			}
			if strings.Contains(n, "(") {
				e, err := ParseExpr(n)
				if err != nil {
					return nil, false, fmt.Errorf("%s:%d: using: %v", path, line, err)
				}
				ld.UsingApps = append(ld.UsingApps, e)
			} else {
				ld.Using = append(ld.Using, n)
			}
		}
		head = head[:k]
	}
	if k := strings.Index(head, " induction "); k >= 0 {
		ind := strings.Fields(head[k+len(" induction "):])
		head = head[:k]
		if len(ind) >= 1 {
			ld.Induct = ind[0]
		}
		lo := "0"
		if len(ind) >= 3 && ind[1] == "from" {
			lo = strings.Join(ind[2:], " ")
		}
		e, err := ParseExpr(lo)
		if err != nil {
			return nil, false, fmt.Errorf("%s:%d: %v", path, line, err)
		}
		ld.From = e
	}
	op := strings.Index(head, "(")
	cp := strings.LastIndex(head, ")")
	if op < 0 || cp < op {
		return nil, false, nil
	}
	ld.Name = strings.TrimSpace(head[:op])
	ps, err := parseParams(head[op+1 : cp])
	if err != nil {
		return nil, false, fmt.Errorf("%s:%d: %v", path, line, err)
	}
	ld.Params = ps
	e, err := ParseExpr(body)
	if err != nil {
		return nil, false, fmt.Errorf("%s:%d: %v", path, line, err)
	}
	ld.Body = e
	return ld, true, nil
}
