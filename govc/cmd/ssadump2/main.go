package main

import (
	"fmt"
	"os"
	"strings"

	"golang.org/x/tools/go/packages"
	"golang.org/x/tools/go/ssa"
	"golang.org/x/tools/go/ssa/ssautil"
)

func main() {
	dir := os.Args[1]
	pat := os.Args[2]
	fn := os.Args[3]
	cfg := &packages.Config{Mode: packages.LoadAllSyntax, Dir: dir, BuildFlags: []string{"-tags=verif"}}
	pkgs, err := packages.Load(cfg, pat)
	if err != nil {
		panic(err)
	}
	prog, spkgs := ssautil.AllPackages(pkgs, ssa.NaiveForm|ssa.GlobalDebug)
	prog.Build()
	for _, p := range spkgs {
		if p == nil {
			continue
		}
		for f := range ssautil.AllFunctions(prog) {
			if f.Pkg == p && strings.Contains(f.String(), fn) {
				f.WriteTo(os.Stdout)
				fmt.Println()
			}
		}
	}
}
