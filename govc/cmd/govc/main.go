// govc: contract-based VC generator for Go (naive-form go/ssa -> SMT-LIB).
package main

import (
	"encoding/json"
	"flag"
	"fmt"
	"os"
	"sort"
	"strings"
	"time"

	"govc/vc"
)

type FuncReport struct {
	Name        string   `json:"name"`
	Contract    string   `json:"contract"`
	Props       []string `json:"props"`
	Paths       int      `json:"paths"`
	Returns     int      `json:"returns"`
	Loops       int      `json:"loops"`
	Unsupported []string `json:"unsupported,omitempty"`
	Obligations int      `json:"obligations"`
}

type Report struct {
	Repo        string          `json:"repo"`
	Props       []string        `json:"props"`
	Functions   []FuncReport    `json:"functions"`
	Obligations []*vc.OblResult `json:"obligations"`
	Trusted     []string        `json:"trusted"`
	Axioms      []string        `json:"axioms"`
	Notes       []string        `json:"notes"`
	Errors      []string        `json:"errors"`
	WallSecs    float64         `json:"wall_s"`
	SolverSecs  float64         `json:"solver_s"`
}

func main() {
	repo := flag.String("repo", "/repo", "repository root")
	pkgs := flag.String("pkgs", "./...", "comma-separated package patterns")
	specs := flag.String("spec", "", "comma-separated extra contract files")
	props := flag.String("props", "", "comma-separated property ids (empty = all)")
	funcs := flag.String("funcs", "", "only functions whose name contains one of these (comma-separated)")
	out := flag.String("out", "", "JSON report path")
	smtDir := flag.String("smtdir", "/tmp/govc-smt", "directory for SMT-LIB files")
	timeout := flag.Int("timeout", 20, "per-query timeout (s)")
	jobs := flag.Int("jobs", 8, "parallel queries")
	all := flag.Bool("all-solvers", false, "collect every solver's answer and cross-check")
	maxPaths := flag.Int("maxpaths", 4000, "path cap per function")
	loops := flag.Bool("loops", false, "print loop ordinals of functions under contract and exit")
	flag.Parse()
	start := time.Now()
	var extra []string
	if *specs != "" {
		extra = strings.Split(*specs, ",")
	}
	e, err := vc.Load(*repo, strings.Split(*pkgs, ","), extra)
	rep := &Report{Repo: *repo}
	fail := func(msg string) {
		rep.Errors = append(rep.Errors, msg)
		writeReport(rep, *out)
		fmt.Fprintln(os.Stderr, "govc: "+msg)
		os.Exit(2)
	}
	if err != nil {
		fail(err.Error())
	}
	want := map[string]bool{}
	for _, p := range strings.Split(*props, ",") {
		if p = strings.TrimSpace(p); p != "" {
			want[p] = true
			rep.Props = append(rep.Props, p)
		}
	}
	axTerms, axSrcs, err := e.AxiomTerms()
	if err != nil {
		fail(err.Error())
	}
	rep.Axioms = axSrcs
	var obls []*vc.Obligation
	for _, c := range append(e.SortedContracts(), e.InitContracts()...) {
		cps := vc.ContractProps(c)
		if c.Trusted {
			continue
		}
		if c.Fn == nil {
			continue
		}
		sel := len(want) == 0
		for _, p := range cps {
			if want[p] {
				sel = true
			}
		}
		if *funcs != "" {
			sel = false
			for _, f := range strings.Split(*funcs, ",") {
				if c.Obj != nil && strings.Contains(c.Obj.FullName(), f) || c.Obj == nil && strings.Contains("init", f) {
					sel = true
				}
			}
		}
		if !sel {
			continue
		}
		if *loops {
			vc.PrintLoops(e, c)
			continue
		}
		res := e.VerifyFunc(c, *maxPaths)
		fr := FuncReport{Name: res.Name, Contract: fmt.Sprintf("%s:%d", c.File, c.Line), Props: cps, Paths: res.Paths, Returns: res.Returns, Loops: res.LoopCount, Unsupported: res.Unsupported}
		for _, o := range res.Obligations {
			if len(o.Props) == 0 {
				o.Props = c.Props
			}
			keep := len(want) == 0
			for _, p := range o.Props {
				if want[p] {
					keep = true
				}
			}
			if keep {
				obls = append(obls, o)
				fr.Obligations++
			}
		}
		if len(res.Unsupported) > 0 {
			// the whole function is outside the subset: one failing pseudo-obligation
			obls = append(obls, &vc.Obligation{Name: res.Name + "#subset:supported", Func: res.Name, Kind: "subset", Props: cps,
				Structu: true, StructOK: false, StructMsg: "outside the generator's subset: " + strings.Join(res.Unsupported, "; ")})
		}
		rep.Functions = append(rep.Functions, fr)
	}
	if *loops {
		return
	}
	sobls, err := e.StructuralObligations(want)
	if err != nil {
		fail(err.Error())
	}
	obls = append(obls, sobls...)
	lobls, err := e.LemmaObligations(want)
	if err != nil {
		fail(err.Error())
	}
	obls = append(obls, lobls...)
	results := e.Discharge(obls, *smtDir, time.Duration(*timeout)*time.Second, *jobs, *all, e.Defs, axTerms)
	e.AttachReplays(results, *smtDir+"_replay")
	rep.Obligations = results
	for _, r := range results {
		rep.SolverSecs += r.Secs
	}
	rep.Trusted = e.TrustedUsed()
	for n := range e.Notes {
		rep.Notes = append(rep.Notes, n)
	}
	sort.Strings(rep.Notes)
	rep.WallSecs = time.Since(start).Seconds()
	writeReport(rep, *out)
	bad := 0
	for _, r := range results {
		if r.Status != "proved" {
			bad++
			fmt.Printf("%-9s %s  [%s] %s %s\n", strings.ToUpper(r.Status), r.Name, r.Backend, r.Pos, r.Detail)
		}
	}
	fmt.Printf("govc: %d functions, %d obligations, %d not proved, %.1fs wall, %.1fs solver\n", len(rep.Functions), len(results), bad, rep.WallSecs, rep.SolverSecs)
	if bad > 0 {
		os.Exit(1)
	}
}

func writeReport(rep *Report, path string) {
	if path == "" {
		return
	}
	data, _ := json.MarshalIndent(rep, "", " ")
	os.WriteFile(path, data, 0o644)
}
