package vc

import (
	"fmt"
	"go/token"
	"go/types"
	"math/big"
	"strings"

	"golang.org/x/tools/go/ssa"

	"govc/smt"
)

// step executes one non-terminator instruction. Returns false if the path ends.
func (x *Exec) step(s *State, in ssa.Instruction, prev *ssa.BasicBlock) bool {
	switch in := in.(type) {
	case *ssa.DebugRef:
		return true
	case *ssa.Alloc:
		et := in.Type().(*types.Pointer).Elem()
		if isStruct(et) {
			r := x.allocNew(s, in.Comment)
			x.storeStruct(s, r, et, x.zeroTerm(et))
			x.zeroGhost(s, r, et)
			s.env[in] = TermVal{r}
			if !in.Heap {
				// a struct local whose address does not escape (go/ssa's own analysis): no callee can write it
				x.stackStructs = append(x.stackStructs, stackStruct{r, et})
			}
		} else {
			if at, ok := et.Underlying().(*types.Array); ok {
				if _, isIface := at.Elem().Underlying().(*types.Interface); isIface && at.Len() <= 16 {
					lv := ListVal{Elem: at.Elem()}
					for i := int64(0); i < at.Len(); i++ {
						lv.Elems = append(lv.Elems, TermVal{IfaceNil})
					}
					s.cells[in] = lv
					s.env[in] = AddrVal{&Addr{Kind: BaseCell, Cell: in, ElemTy: et}}
					return true
				}
			}
			s.cells[in] = TermVal{x.zeroTerm(et)}
			s.env[in] = AddrVal{&Addr{Kind: BaseCell, Cell: in, ElemTy: et}}
		}
	case *ssa.Store:
		x.execStore(s, in.Addr, in.Val)
	case *ssa.UnOp:
		x.execUnOp(s, in)
	case *ssa.BinOp:
		s.env[in] = TermVal{x.binop(s, in.Op, in.X, in.Y, in.Type(), in)}
	case *ssa.FieldAddr:
		x.execFieldAddr(s, in)
	case *ssa.Field:
		v := x.val(s, in.X)
		switch v := v.(type) {
		case TermVal:
			s.env[in] = TermVal{smt.Sel(v.T, in.Field)}
		default:
			x.unsupported("Field on %T", v)
		}
	case *ssa.IndexAddr:
		x.execIndexAddr(s, in)
	case *ssa.Index:
		xv := x.term(s, in.X)
		iv := x.term(s, in.Index)
		x.safety(s, "idx", smt.And(smt.Le(smt.IntC(0), iv), smt.Lt(iv, smt.SeqLen(xv))))
		r := smt.SeqNth(xv, iv)
		x.typeFacts(s, r, in.Type(), 0)
		s.env[in] = TermVal{r}
	case *ssa.Slice:
		x.execSlice(s, in)
	case *ssa.Phi:
		if prev == nil && len(s.phiFrom) > 0 {
			// merged state: select the edge value by arrival guard
			var r *smt.Term
			for k := len(s.phiFrom) - 1; k >= 0; k-- {
				ps := s.phiFrom[k]
				var ev *smt.Term
				for i, p := range in.Block().Preds {
					if p == ps.from {
						ev = x.toTerm(s, x.val(s, in.Edges[i]), in.Type())
					}
				}
				if ev == nil {
					x.unsupported("phi edge not found after merge")
					return true
				}
				if r == nil {
					r = ev
				} else {
					r = smt.Ite(ps.guard, ev, r)
				}
			}
			s.env[in] = TermVal{r}
			return true
		}
		for i, p := range in.Block().Preds {
			if p == prev {
				s.env[in] = x.val(s, in.Edges[i])
				return true
			}
		}
		x.unsupported("phi without matching predecessor")
	case *ssa.Convert:
		x.execConvert(s, in)
	case *ssa.ChangeType:
		v := x.val(s, in.X)
		fs, ts := x.E.SortOf(in.X.Type()), x.E.SortOf(in.Type())
		if tv, ok := v.(TermVal); ok && fs != ts && fs.Kind == smt.KData && ts.Kind == smt.KData {
			// conversion between struct types with identical underlying structure
			fd, td := smt.DataDefs[fs.Name], smt.DataDefs[ts.Name]
			if len(fd.Fields) == len(td.Fields) {
				var args []*smt.Term
				for i := range fd.Fields {
					args = append(args, smt.Sel(tv.T, i))
				}
				s.env[in] = TermVal{smt.Ctor(ts, args...)}
				return true
			}
		}
		s.env[in] = v
	case *ssa.ChangeInterface:
		s.env[in] = x.val(s, in.X)
	case *ssa.MakeInterface:
		s.env[in] = BoxedVal{Type: in.X.Type(), Inner: x.val(s, in.X)}
	case *ssa.TypeAssert:
		x.execTypeAssert(s, in)
	case *ssa.Extract:
		tv := x.val(s, in.Tuple)
		if t, ok := tv.(TupleVal); ok {
			s.env[in] = t.Elems[in.Index]
		} else {
			x.unsupported("extract from %T", tv)
		}
	case *ssa.Call:
		return x.execCall(s, in, &in.Call)
	case *ssa.Defer:
		d := deferred{call: &in.Call, inst: in}
		if !in.Call.IsInvoke() {
			d.fn = x.val(s, in.Call.Value)
		} else {
			d.fn = x.val(s, in.Call.Value)
		}
		for _, a := range in.Call.Args {
			d.args = append(d.args, x.val(s, a))
		}
		s.defers = append(s.defers, d)
	case *ssa.RunDefers:
		for len(s.defers) > 0 {
			d := s.defers[len(s.defers)-1]
			s.defers = s.defers[:len(s.defers)-1]
			nf := len(x.forks)
			ok := x.execDeferred(s, d)
			// forks created while running this deferred call resume at this RunDefers with their remaining defers
			for i := nf; i < len(x.forks); i++ {
				x.forks[i].resume = 1
			}
			if !ok {
				return false
			}
		}
	case *ssa.Go:
		x.E.Note("go statement in %s: the spawned call is not modelled (no effect on this goroutine's modelled state)", x.fn.String())
		x.event(s, "go", &in.Call)
		// count the goroutines started per static callee: spec builtin spawned(name)
		if callee := staticFn(&in.Call); callee != nil {
			h := "GV$spawn$" + callee.Name()
			x.E.HeapSorts[h] = smt.Int
			s.heap[h] = smt.Add(x.Heap(s, h), smt.IntC(1))
			x.wrote[h] = true
		}
	case *ssa.MakeClosure:
		fv := FuncVal{Fn: in.Fn.(*ssa.Function)}
		for _, b := range in.Bindings {
			fv.Bindings = append(fv.Bindings, x.val(s, b))
		}
		s.env[in] = fv
	case *ssa.MakeSlice:
		n := x.term(s, in.Len)
		x.safety(s, "slice", smt.Le(smt.IntC(0), n))
		et := in.Type().Underlying().(*types.Slice).Elem()
		sq := smt.Fresh("make", x.E.SortOf(in.Type()))
		s.assume(smt.Eq(smt.SeqLen(sq), n))
		// zero-filled: element facts on demand via quantifier-free per-index axiom is not available; note it
		k := smt.Var(smt.FreshName("mk$i"), smt.Int)
		z := x.zeroTerm(et)
		s.assume(smt.Forall([]*smt.Term{k}, smt.Implies(smt.And(smt.Le(smt.IntC(0), k), smt.Lt(k, n)), smt.Eq(smt.SeqNth(sq, k), z)), []*smt.Term{smt.SeqNth(sq, k)}))
		s.env[in] = TermVal{sq}
	case *ssa.MakeMap:
		r := x.allocNew(s, "map")
		d, v, ks, vs := x.E.mapHeaps(in.Type())
		_ = vs
		s.heap[d] = smt.Store(x.Heap(s, d), r, smt.ConstArr(smt.Arr(ks, smt.Bool), smt.False))
		x.Heap(s, v)
		s.env[in] = TermVal{r}
	case *ssa.MakeChan:
		s.env[in] = TermVal{x.allocNew(s, "chan")}
	case *ssa.Lookup:
		x.execLookup(s, in)
	case *ssa.MapUpdate:
		m := x.term(s, in.Map)
		x.safety(s, "mapw", smt.Neq(m, RefNil))
		d, v, _, _ := x.E.mapHeaps(in.Map.Type())
		k := x.term(s, in.Key)
		val := x.term(s, in.Value)
		s.heap[d] = smt.Store(x.Heap(s, d), m, smt.Store(smt.Select(x.Heap(s, d), m), k, smt.True))
		s.heap[v] = smt.Store(x.Heap(s, v), m, smt.Store(smt.Select(x.Heap(s, v), m), k, val))
		x.wrote[d], x.wrote[v] = true, true
	case *ssa.Range:
		mt, ok := in.X.Type().Underlying().(*types.Map)
		if !ok {
			x.unsupported("range over string")
			return true
		}
		name := x.iterHeap(in, mt)
		x.Heap(s, name)
		s.heap[name] = smt.ConstArr(x.E.HeapSorts[name], smt.False)
		s.env[in] = IterVal{X: TermVal{x.term(s, in.X)}, Key: name}
	case *ssa.Next:
		if in.IsString {
			x.unsupported("range over string")
			return true
		}
		it, ok := x.val(s, in.Iter).(IterVal)
		if !ok {
			x.unsupported("next on unknown iterator")
			return true
		}
		rg := in.Iter.(*ssa.Range)
		mt := rg.X.Type().Underlying().(*types.Map)
		m := it.X.(TermVal).T
		d, v, _, _ := x.E.mapHeaps(rg.X.Type())
		dom := smt.Select(x.Heap(s, d), m)
		vals := smt.Select(x.Heap(s, v), m)
		visited := x.Heap(s, it.Key)
		okT := smt.Fresh("next$ok", smt.Bool)
		k := x.freshOf(s, mt.Key(), "next$k")
		val := x.freshOf(s, mt.Elem(), "next$v")
		s.assume(smt.Implies(okT, smt.And(smt.Neq(m, RefNil), smt.Select(dom, k), smt.Not(smt.Select(visited, k)), smt.Eq(val, smt.Select(vals, k)))))
		q := smt.Var(smt.FreshName("q$k"), x.E.SortOf(mt.Key()))
		s.assume(smt.Implies(smt.Not(okT), smt.Or(smt.Eq(m, RefNil), smt.Forall([]*smt.Term{q}, smt.Implies(smt.Select(dom, q), smt.Select(visited, q)), []*smt.Term{smt.Select(dom, q)}))))
		s.heap[it.Key] = smt.Ite(okT, smt.Store(visited, k, smt.True), visited)
		if tv, isRef := Val(TermVal{val}).(TermVal); isRef && val.Sort == smt.Ref {
			x.assumeAllocated(s, tv.T)
		}
		s.env[in] = TupleVal{[]Val{TermVal{okT}, TermVal{k}, TermVal{val}}}
	case *ssa.Select:
		x.E.Note("select statement in %s: outcome is an unconstrained choice", x.fn.String())
		var elems []Val
		idx := smt.Fresh("select$idx", smt.Int)
		s.assume(smt.And(smt.Le(smt.IntC(0), idx), smt.Lt(idx, smt.IntC(int64(len(in.States))))))
		if !in.Blocking {
			// index -1 means default
			idx = smt.Fresh("select$idx", smt.Int)
			s.assume(smt.And(smt.Le(smt.IntC(-1), idx), smt.Lt(idx, smt.IntC(int64(len(in.States))))))
		}
		elems = append(elems, TermVal{idx}, TermVal{smt.Fresh("select$ok", smt.Bool)})
		for _, st := range in.States {
			if st.Dir == types.RecvOnly {
				et := st.Chan.Type().Underlying().(*types.Chan).Elem()
				elems = append(elems, TermVal{x.freshOf(s, et, "select$recv")})
			}
		}
		s.env[in] = TupleVal{elems}
	case *ssa.Send:
		x.E.Note("channel send in %s modelled as an event only", x.fn.String())
		x.chanEvent(s, "send", in.Chan, in.X)
	case *ssa.SliceToArrayPointer:
		// (*[N]T)(s) panics when len(s) < N; the resulting pointer is opaque (only handed on, e.g. to a pool)
		at, _ := in.Type().Underlying().(*types.Pointer).Elem().Underlying().(*types.Array)
		sv := x.term(s, in.X)
		if at == nil || sv == nil || sv.Sort.Kind != smt.KSeq {
			x.unsupported("%T", in)
			break
		}
		x.safety(s, "conv", smt.Le(smt.IntC(at.Len()), smt.SeqLen(sv)))
		r := x.freshOf(s, in.Type(), "arrptr")
		if at.Len() > 0 {
			s.assume(smt.Not(smt.Eq(r, RefNil)))
		}
		s.env[in] = TermVal{r}
	case *ssa.MultiConvert:
		x.unsupported("%T", in)
	default:
		x.unsupported("instruction %T", in)
	}
	return true
}

// iterHeap names the ghost "visited keys" set of a map range statement.
func (x *Exec) iterHeap(rg *ssa.Range, mt *types.Map) string {
	name := "IT$" + sanitizeName(rg.Parent().String()) + "$" + rg.Name()
	x.E.HeapSorts[name] = smt.Arr(x.E.SortOf(mt.Key()), smt.Bool)
	return name
}

func sanitizeName(s string) string {
	var b strings.Builder
	for _, r := range s {
		if r >= 'a' && r <= 'z' || r >= 'A' && r <= 'Z' || r >= '0' && r <= '9' || r == '_' || r == '.' {
			b.WriteRune(r)
		} else {
			b.WriteByte('_')
		}
	}
	return b.String()
}

// zeroGhost: the ghost fields of a freshly allocated (zero-valued) object start at their zero value.
func (x *Exec) zeroGhost(s *State, r *smt.Term, st types.Type) {
	for _, gf := range x.E.GhostF {
		if gf.Owner != nil && types.Identical(gf.Owner, st) {
			cur := x.Heap(s, gf.Heap)
			s.heap[gf.Heap] = smt.Store(cur, r, zeroOfSort(gf.Sort))
		}
	}
	u := st.Underlying().(*types.Struct)
	for i := 0; i < u.NumFields(); i++ {
		if ft := u.Field(i).Type(); isStruct(ft) {
			x.zeroGhost(s, x.E.subRef(st, i, r), ft)
		}
	}
}

func zeroOfSort(srt *smt.Sort) *smt.Term {
	switch {
	case srt == smt.Int:
		return smt.IntC(0)
	case srt == smt.Bool:
		return smt.False
	case srt == smt.Ref:
		return RefNil
	case srt == smt.Iface:
		return IfaceNil
	case srt.Kind == smt.KSeq:
		return smt.SeqEmpty(srt.Args[0])
	case srt.Kind == smt.KArr:
		return smt.ConstArr(srt, zeroOfSort(srt.Args[1]))
	}
	return smt.Fresh("zero", srt)
}

func (x *Exec) execStore(s *State, addr, val ssa.Value) {
	pt := addr.Type().Underlying().(*types.Pointer)
	v := x.val(s, val)
	if isStruct(pt.Elem()) {
		// whole-struct store through a Ref
		av := x.val(s, addr)
		switch av := av.(type) {
		case TermVal:
			x.safety(s, "nil", smt.Neq(av.T, RefNil))
			x.storeStruct(s, av.T, pt.Elem(), x.toTerm(s, v, pt.Elem()))
			return
		case AddrVal:
			x.store(s, av.A, v)
			return
		}
	}
	a := x.addrOf(s, addr)
	// remember where slice-typed values live, for element stores and post(b) havoc
	x.store(s, a, v)
}

func (x *Exec) execUnOp(s *State, in *ssa.UnOp) {
	switch in.Op {
	case token.MUL: // load
		pt := in.X.Type().Underlying().(*types.Pointer)
		if isStruct(pt.Elem()) {
			av := x.val(s, in.X)
			switch av := av.(type) {
			case TermVal:
				x.safety(s, "nil", smt.Neq(av.T, RefNil))
				s.env[in] = TermVal{x.loadStruct(s, av.T, pt.Elem())}
			case AddrVal:
				s.env[in] = x.load(s, av.A)
			default:
				x.unsupported("load struct via %T", av)
			}
			return
		}
		a := x.addrOf(s, in.X)
		v := x.load(s, a)
		if tv, ok := v.(TermVal); ok && tv.T.Sort == smt.Ref {
			x.assumeAllocated(s, tv.T)
		}
		s.env[in] = v
		if _, isSlice := pt.Elem().Underlying().(*types.Slice); isSlice {
			s.origin[in] = a
		}
	case token.NOT:
		s.env[in] = TermVal{smt.Not(x.term(s, in.X))}
	case token.SUB:
		bits, signed, _ := IntInfo(in.Type())
		s.env[in] = TermVal{Wrap(smt.Neg(x.term(s, in.X)), bits, signed)}
	case token.XOR:
		bits, signed, ok := IntInfo(in.Type())
		if !ok {
			x.unsupported("^ on non-integer")
			return
		}
		t := x.term(s, in.X)
		if signed {
			s.env[in] = TermVal{smt.Sub(smt.IntC(-1), t)}
		} else {
			_, hi := IntRange(bits, false)
			s.env[in] = TermVal{smt.Sub(smt.IntB(hi), t)}
		}
	case token.ARROW:
		x.E.Note("channel receive in %s yields an unconstrained value", x.fn.String())
		x.chanEvent(s, "recv", in.X, nil)
		et := in.X.Type().Underlying().(*types.Chan).Elem()
		v := x.freshOf(s, et, "recv")
		if in.CommaOk {
			s.env[in] = TupleVal{[]Val{TermVal{v}, TermVal{smt.Fresh("recv$ok", smt.Bool)}}}
		} else {
			s.env[in] = TermVal{v}
		}
	default:
		x.unsupported("unary op %s", in.Op)
	}
}

func (x *Exec) execFieldAddr(s *State, in *ssa.FieldAddr) {
	st := in.X.Type().Underlying().(*types.Pointer).Elem()
	ft := st.Underlying().(*types.Struct).Field(in.Field).Type()
	xv := x.val(s, in.X)
	switch xv := xv.(type) {
	case TermVal:
		x.safety(s, "nil", smt.Neq(xv.T, RefNil))
		if isStruct(ft) {
			s.env[in] = TermVal{x.E.subRef(st, in.Field, xv.T)}
		} else {
			s.env[in] = AddrVal{&Addr{Kind: BaseHeapField, Ref: xv.T, Struct: st, Field: in.Field, ElemTy: ft}}
		}
	case AddrVal:
		s.env[in] = AddrVal{xv.A.withStep(Step{Kind: StepField, Field: in.Field})}
	default:
		x.unsupported("FieldAddr on %T", xv)
	}
}

func (x *Exec) execIndexAddr(s *State, in *ssa.IndexAddr) {
	iv := x.term(s, in.Index)
	switch xt := in.X.Type().Underlying().(type) {
	case *types.Slice:
		xv := x.val(s, in.X)
		var st *smt.Term
		switch xv := xv.(type) {
		case TermVal:
			st = xv.T
		case ListVal:
			st = x.toTerm(s, xv, in.X.Type())
		default:
			x.unsupported("IndexAddr on %T", xv)
			return
		}
		x.safety(s, "idx", smt.And(smt.Le(smt.IntC(0), iv), smt.Lt(iv, smt.SeqLen(st))))
		a := &Addr{Kind: BaseSlice, SliceV: st, Origin: s.origin[in.X], ElemTy: in.X.Type()}
		s.env[in] = AddrVal{a.withStep(Step{Kind: StepIndex, Index: iv})}
	case *types.Pointer: // pointer to array
		at := xt.Elem().Underlying().(*types.Array)
		x.safety(s, "idx", smt.And(smt.Le(smt.IntC(0), iv), smt.Lt(iv, smt.IntC(at.Len()))))
		xv := x.val(s, in.X)
		switch xv := xv.(type) {
		case AddrVal:
			s.env[in] = AddrVal{xv.A.withStep(Step{Kind: StepIndex, Index: iv})}
		default:
			x.unsupported("IndexAddr on array pointer %T", xv)
		}
	default:
		x.unsupported("IndexAddr on %s", in.X.Type())
	}
}

func (x *Exec) execSlice(s *State, in *ssa.Slice) {
	var base *smt.Term
	var capT *smt.Term
	switch in.X.Type().Underlying().(type) {
	case *types.Pointer:
		xv := x.val(s, in.X)
		av, ok := xv.(AddrVal)
		if !ok {
			x.unsupported("slice of array pointer %T", xv)
			return
		}
		lv := x.load(s, av.A)
		if l, ok := lv.(ListVal); ok && in.Low == nil && in.High == nil {
			s.env[in] = l
			return
		}
		base = x.toTerm(s, lv, av.A.Type())
		s.origin[in] = av.A
	default:
		base = x.term(s, in.X)
		if o, ok := s.origin[in.X]; ok {
			_ = o
		}
	}
	n := smt.SeqLen(base)
	lo, hi := smt.IntC(0), n
	if in.Low != nil {
		lo = x.term(s, in.Low)
	}
	if in.High != nil {
		hi = x.term(s, in.High)
	}
	if in.Max != nil {
		x.unsupported("3-index slice")
	}
	capT = n
	x.safety(s, "slice", smt.And(smt.Le(smt.IntC(0), lo), smt.Le(lo, hi), smt.Le(hi, capT)))
	if in.High != nil {
		if _, isSlice := in.X.Type().Underlying().(*types.Slice); isSlice {
			x.E.Note("reslicing is checked against len, not cap (stricter than Go) in %s", x.fn.String())
		}
	}
	r := smt.SeqExtract(base, lo, smt.Sub(hi, lo))
	s.env[in] = TermVal{r}
}

func (x *Exec) execConvert(s *State, in *ssa.Convert) {
	from, to := in.X.Type(), in.Type()
	v := x.val(s, in.X)
	if _, _, fi := IntInfo(from); fi {
		if bits, signed, ti := IntInfo(to); ti {
			s.env[in] = TermVal{Wrap(x.toTerm(s, v, from), bits, signed)}
			return
		}
		if tb, ok := to.Underlying().(*types.Basic); ok && tb.Info()&types.IsString != 0 {
			// string(rune/byte)
			t := x.toTerm(s, v, from)
			r := smt.Ite(smt.And(smt.Le(smt.IntC(0), t), smt.Lt(t, smt.IntC(128))), smt.SeqUnit(t), smt.App("utf8enc", smt.Seq(smt.Int), t))
			s.env[in] = TermVal{r}
			return
		}
	}
	fs, ts := x.E.SortOf(from), x.E.SortOf(to)
	if fs == ts {
		// string <-> []byte, named conversions
		s.env[in] = TermVal{x.toTerm(s, v, from)}
		if o, ok := s.origin[in.X]; ok {
			s.origin[in] = o
		}
		return
	}
	if ts.Kind == smt.KUnint && ts.Name == "Float" || fs.Kind == smt.KUnint && fs.Name == "Float" {
		x.E.Note("floating point conversion in %s is uninterpreted", x.fn.String())
		s.env[in] = TermVal{x.freshOf(s, to, "fconv")}
		return
	}
	if ts == smt.Ref && fs == smt.Ref {
		s.env[in] = v
		return
	}
	x.unsupported("conversion %s -> %s", from, to)
}

func (x *Exec) execTypeAssert(s *State, in *ssa.TypeAssert) {
	v := x.val(s, in.X)
	at := in.AssertedType
	_, toIface := at.Underlying().(*types.Interface)
	var okT *smt.Term
	var res Val
	if bv, isBoxed := v.(BoxedVal); isBoxed && !toIface {
		if types.Identical(bv.Type, at) {
			okT, res = smt.True, bv.Inner
		} else {
			okT, res = smt.False, TermVal{x.zeroTerm(at)}
		}
	} else {
		it := x.toTerm(s, v, in.X.Type())
		if toIface {
			if bv, isBoxed := v.(BoxedVal); isBoxed {
				okT = smt.BoolC(types.Implements(bv.Type, at.Underlying().(*types.Interface)))
			} else if si, ok := in.X.Type().Underlying().(*types.Interface); ok && types.Implements(si, at.Underlying().(*types.Interface)) {
				// the static interface type already guarantees the methods: only nil can fail
				okT = smt.Neq(it, IfaceNil)
			} else {
				okT = smt.App("implements$"+shortTypeName(at), smt.Bool, TypeOf(it))
				okT = smt.And(okT, smt.Neq(it, IfaceNil))
			}
			res = TermVal{it}
		} else {
			okT = smt.Eq(TypeOf(it), smt.IntC(int64(x.E.TypeTag(at))))
			u := x.E.Unbox(at, it)
			x.typeFacts(s, u, at, 0)
			res = TermVal{u}
		}
	}
	if in.CommaOk {
		zero := TermVal{x.zeroTerm(at)}
		if okT.IsTrue() {
			s.env[in] = TupleVal{[]Val{res, TermVal{smt.True}}}
		} else if okT.IsFalse() {
			s.env[in] = TupleVal{[]Val{zero, TermVal{smt.False}}}
		} else {
			rt := x.toTerm(s, res, at)
			s.env[in] = TupleVal{[]Val{TermVal{smt.Ite(okT, rt, zero.T)}, TermVal{okT}}}
		}
		return
	}
	x.safety(s, "assert-type", okT)
	s.env[in] = res
}

func (x *Exec) execLookup(s *State, in *ssa.Lookup) {
	switch in.X.Type().Underlying().(type) {
	case *types.Map:
		m := x.term(s, in.X)
		d, v, _, _ := x.E.mapHeaps(in.X.Type())
		k := x.term(s, in.Index)
		vt := in.X.Type().Underlying().(*types.Map).Elem()
		present := smt.And(smt.Neq(m, RefNil), smt.Select(smt.Select(x.Heap(s, d), m), k))
		val := smt.Ite(present, smt.Select(smt.Select(x.Heap(s, v), m), k), x.zeroTerm(vt))
		x.typeFacts(s, val, vt, 0)
		if in.CommaOk {
			s.env[in] = TupleVal{[]Val{TermVal{val}, TermVal{present}}}
		} else {
			s.env[in] = TermVal{val}
		}
	default: // string index
		xv := x.term(s, in.X)
		iv := x.term(s, in.Index)
		x.safety(s, "idx", smt.And(smt.Le(smt.IntC(0), iv), smt.Lt(iv, smt.SeqLen(xv))))
		r := smt.SeqNth(xv, iv)
		smt.SetRange(r, big.NewInt(0), big.NewInt(255))
		s.env[in] = TermVal{r}
	}
}

// ---------- binary operations ----------

func isPow2(v *big.Int) (int, bool) {
	if v.Sign() <= 0 {
		return 0, false
	}
	n := v.BitLen() - 1
	if new(big.Int).Lsh(big.NewInt(1), uint(n)).Cmp(v) == 0 {
		return n, true
	}
	return 0, false
}

// lowZeroBits: number of low bits known to be zero.
func lowZeroBits(t *smt.Term) int {
	switch t.Op {
	case "int":
		if t.Int.Sign() == 0 {
			return 64
		}
		n := 0
		for t.Int.Bit(n) == 0 {
			n++
		}
		return n
	case "*":
		if t.Args[0].Op == "int" {
			return lowZeroBits(t.Args[0]) + lowZeroBits(t.Args[1])
		}
	case "+":
		m := 64
		for _, a := range t.Args {
			if z := lowZeroBits(a); z < m {
				m = z
			}
		}
		return m
	case "ite":
		a, b := lowZeroBits(t.Args[1]), lowZeroBits(t.Args[2])
		if a < b {
			return a
		}
		return b
	}
	return 0
}

func (x *Exec) binop(s *State, op token.Token, X, Y ssa.Value, rt types.Type, in ssa.Instruction) *smt.Term {
	xt := X.Type()
	xv, yv := x.val(s, X), x.val(s, Y)
	// comparisons on non-integers
	switch op {
	case token.EQL, token.NEQ:
		var r *smt.Term
		if _, _, isInt := IntInfo(xt); isInt {
			r = smt.Eq(x.toTerm(s, xv, xt), x.toTerm(s, yv, Y.Type()))
		} else {
			r = x.equal(s, xv, yv, xt, Y.Type())
		}
		if op == token.NEQ {
			return smt.Not(r)
		}
		return r
	}
	a, b := x.toTerm(s, xv, xt), x.toTerm(s, yv, Y.Type())
	if bs, ok := xt.Underlying().(*types.Basic); ok && bs.Info()&types.IsString != 0 {
		switch op {
		case token.ADD:
			return smt.SeqConcat(a, b)
		default:
			x.E.Note("string ordering comparison in %s is uninterpreted", x.fn.String())
			return smt.App("strcmp$"+op.String(), smt.Bool, a, b)
		}
	}
	if a.Sort == smt.Bool {
		switch op {
		case token.LAND, token.AND:
			return smt.And(a, b)
		case token.LOR, token.OR:
			return smt.Or(a, b)
		}
	}
	bits, signed, ok := IntInfo(xt)
	if !ok {
		x.E.Note("non-integer arithmetic (%s) in %s is uninterpreted", xt, x.fn.String())
		if rt.Underlying().(*types.Basic).Info()&types.IsBoolean != 0 {
			return smt.Fresh("fcmp", smt.Bool)
		}
		return smt.Fresh("farith", x.E.SortOf(rt))
	}
	switch op {
	case token.LSS:
		return smt.Lt(a, b)
	case token.LEQ:
		return smt.Le(a, b)
	case token.GTR:
		return smt.Gt(a, b)
	case token.GEQ:
		return smt.Ge(a, b)
	case token.ADD:
		return Wrap(smt.Add(a, b), bits, signed)
	case token.SUB:
		return Wrap(smt.Sub(a, b), bits, signed)
	case token.MUL:
		return Wrap(smt.Mul(a, b), bits, signed)
	case token.QUO, token.REM:
		x.safety(s, "div0", smt.Neq(b, smt.IntC(0)))
		la, _ := smt.Bounds(a)
		lb, _ := smt.Bounds(b)
		nonneg := la != nil && la.Sign() >= 0 && lb != nil && lb.Sign() >= 0
		var q, r *smt.Term
		if nonneg {
			q, r = smt.Div(a, b), smt.Mod(a, b)
		} else {
			// truncated division from floor division
			absA := smt.Ite(smt.Lt(a, smt.IntC(0)), smt.Neg(a), a)
			absB := smt.Ite(smt.Lt(b, smt.IntC(0)), smt.Neg(b), b)
			qa := smt.Div(absA, absB)
			neg := smt.Not(smt.Eq(smt.Lt(a, smt.IntC(0)), smt.Lt(b, smt.IntC(0))))
			q = smt.Ite(neg, smt.Neg(qa), qa)
			r = smt.Sub(a, smt.Mul(q, b))
		}
		if op == token.QUO {
			return Wrap(q, bits, signed)
		}
		return r
	case token.SHL:
		if b.IsInt() && b.Int.IsInt64() {
			k := b.Int.Int64()
			if k >= int64(bits) {
				return smt.IntC(0)
			}
			return Wrap(smt.Mul(smt.IntB(pow2(int(k))), a), bits, signed)
		}
		if bits <= 64 {
			// variable shift count: case analysis over the (at most 64) counts that leave anything
			return shiftChain(b, bits, func(k int) *smt.Term { return Wrap(smt.Mul(smt.IntB(pow2(k)), a), bits, signed) }, smt.IntC(0))
		}
		return x.uninterpOp("shl", bits, signed, a, b)
	case token.SHR:
		if b.IsInt() && b.Int.IsInt64() {
			k := b.Int.Int64()
			if k >= int64(bits) {
				if signed {
					return smt.Ite(smt.Lt(a, smt.IntC(0)), smt.IntC(-1), smt.IntC(0))
				}
				return smt.IntC(0)
			}
			return smt.Div(a, smt.IntB(pow2(int(k))))
		}
		if bits <= 64 {
			over := smt.IntC(0)
			if signed {
				over = smt.Ite(smt.Lt(a, smt.IntC(0)), smt.IntC(-1), smt.IntC(0))
			}
			return shiftChain(b, bits, func(k int) *smt.Term { return smt.Div(a, smt.IntB(pow2(k))) }, over)
		}
		return x.uninterpOp("shr", bits, signed, a, b)
	case token.AND:
		if a.IsInt() {
			a, b = b, a
		}
		if b.IsInt() && b.Int.Sign() >= 0 {
			return x.andConst(a, b.Int, bits, signed)
		}
		// v & ((1 << n) - 1): the low n bits
		for i, side := range []ssa.Value{Y, X} {
			if n, ok := lowMaskCount(side); ok && !signed && bits <= 64 {
				other := a
				if i == 1 {
					other = b
				}
				nt := x.term(s, n)
				return shiftChain(nt, bits, func(k int) *smt.Term { return smt.Mod(other, smt.IntB(pow2(k))) }, other)
			}
		}
		return x.uninterpOp("and", bits, signed, a, b)
	case token.OR:
		// disjoint-bits pattern: (x * 2^k) | y with 0 <= y < 2^k
		for i := 0; i < 2; i++ {
			lz := lowZeroBits(a)
			lo, hi := smt.Bounds(b)
			if lz > 0 && lo != nil && hi != nil && lo.Sign() >= 0 && hi.Cmp(pow2(lz)) < 0 {
				la, _ := smt.Bounds(a)
				if la != nil && la.Sign() >= 0 {
					return Wrap(smt.Add(a, b), bits, signed)
				}
			}
			a, b = b, a
		}
		if a.IsInt() && a.Int.Sign() == 0 {
			return b
		}
		if b.IsInt() && b.Int.Sign() == 0 {
			return a
		}
		// x | ite(c, k1, k2) with constant leaves: distribute, so that each branch is an OR with a constant
		for i := 0; i < 2; i++ {
			if b.Op == "ite" && iteConstLeaves(b, 0) && !signed {
				var dist func(t *smt.Term) *smt.Term
				dist = func(t *smt.Term) *smt.Term {
					if t.Op == "ite" {
						return smt.Ite(t.Args[0], dist(t.Args[1]), dist(t.Args[2]))
					}
					if t.Int.Sign() == 0 {
						return a
					}
					r := a
					for k := 0; k < t.Int.BitLen(); k++ {
						if t.Int.Bit(k) == 1 {
							has := smt.Mod(smt.Div(a, smt.IntB(pow2(k))), smt.IntC(2))
							r = smt.Add(r, smt.Mul(smt.IntB(pow2(k)), smt.Sub(smt.IntC(1), has)))
						}
					}
					return r
				}
				return dist(b)
			}
			a, b = b, a
		}
		// x | c for an unsigned x and a constant with few set bits: add every bit of c that x does not have
		for i := 0; i < 2; i++ {
			if b.IsInt() && b.Int.Sign() > 0 && !signed && b.Int.BitLen() <= bits {
				nset := 0
				for k := 0; k < b.Int.BitLen(); k++ {
					if b.Int.Bit(k) == 1 {
						nset++
					}
				}
				if nset <= 8 {
					r := a
					for k := 0; k < b.Int.BitLen(); k++ {
						if b.Int.Bit(k) == 1 {
							has := smt.Mod(smt.Div(a, smt.IntB(pow2(k))), smt.IntC(2))
							r = smt.Add(r, smt.Mul(smt.IntB(pow2(k)), smt.Sub(smt.IntC(1), has)))
						}
					}
					return r
				}
			}
			a, b = b, a
		}
		return x.uninterpOp("or", bits, signed, a, b)
	case token.XOR:
		return x.uninterpOp("xor", bits, signed, a, b)
	case token.AND_NOT:
		if b.IsInt() && b.Int.Sign() >= 0 && !signed {
			_, hi := IntRange(bits, false)
			mask := new(big.Int).AndNot(hi, b.Int)
			return x.andConst(a, mask, bits, signed)
		}
		return x.uninterpOp("andnot", bits, signed, a, b)
	}
	x.unsupported("binary op %s", op)
	return smt.IntC(0)
}

// iteConstLeaves: t is an ite tree (depth <= 3) whose leaves are small non-negative integer constants
func iteConstLeaves(t *smt.Term, depth int) bool {
	if t.Op == "ite" {
		return depth < 3 && iteConstLeaves(t.Args[1], depth+1) && iteConstLeaves(t.Args[2], depth+1)
	}
	return t.IsInt() && t.Int.Sign() >= 0 && t.Int.BitLen() <= 16
}

// shiftChain: ite(b = 0, f(0), ite(b = 1, f(1), ... ite(b = bits-1, f(bits-1), over)))
func shiftChain(b *smt.Term, bits int, f func(k int) *smt.Term, over *smt.Term) *smt.Term {
	r := over
	for k := bits - 1; k >= 0; k-- {
		r = smt.Ite(smt.Eq(b, smt.IntC(int64(k))), f(k), r)
	}
	return r
}

// lowMaskCount recognises the SSA shape of (1 << n) - 1 (possibly through integer conversions) and returns n.
func lowMaskCount(v ssa.Value) (ssa.Value, bool) {
	for {
		if c, ok := v.(*ssa.Convert); ok {
			v = c.X
			continue
		}
		break
	}
	sub, ok := v.(*ssa.BinOp)
	if !ok || sub.Op != token.SUB {
		return nil, false
	}
	one, ok := sub.Y.(*ssa.Const)
	if !ok || one.Value == nil || one.Int64() != 1 {
		return nil, false
	}
	sx := sub.X
	for {
		if c, ok := sx.(*ssa.Convert); ok {
			sx = c.X
			continue
		}
		break
	}
	shl, ok := sx.(*ssa.BinOp)
	if !ok || shl.Op != token.SHL {
		return nil, false
	}
	base, ok := shl.X.(*ssa.Const)
	if !ok || base.Value == nil || base.Int64() != 1 {
		return nil, false
	}
	return shl.Y, true
}

func (x *Exec) uninterpOp(name string, bits int, signed bool, a, b *smt.Term) *smt.Term {
	x.E.Note("bit operation %s on non-constant operands in %s is uninterpreted (sound over-approximation)", name, x.fn.String())
	sg := "u"
	if signed {
		sg = "s"
	}
	r := smt.App(fmt.Sprintf("bv%s$%s%d", name, sg, bits), smt.Int, a, b)
	lo, hi := IntRange(bits, signed)
	smt.SetRange(r, lo, hi)
	return r
}

// andConst: a & mask for a non-negative constant mask, by decomposing the mask into runs of ones.
func (x *Exec) andConst(a *smt.Term, mask *big.Int, bits int, signed bool) *smt.Term {
	if mask.Sign() == 0 {
		return smt.IntC(0)
	}
	la, _ := smt.Bounds(a)
	if la == nil || la.Sign() < 0 {
		// make it non-negative modulo 2^bits (two's complement view)
		a = smt.Mod(a, smt.IntB(pow2(bits)))
	}
	var parts []*smt.Term
	i := 0
	n := mask.BitLen()
	for i < n {
		if mask.Bit(i) == 0 {
			i++
			continue
		}
		j := i
		for j < n && mask.Bit(j) == 1 {
			j++
		}
		// bits [i, j)
		piece := smt.Mod(smt.Div(a, smt.IntB(pow2(i))), smt.IntB(pow2(j-i)))
		parts = append(parts, smt.Mul(smt.IntB(pow2(i)), piece))
		i = j
	}
	return smt.Add(parts...)
}

func (x *Exec) equal(s *State, xv, yv Val, xt, yt types.Type) *smt.Term {
	// interface vs boxed comparisons
	if _, isIface := xt.Underlying().(*types.Interface); isIface {
		bx, okx := xv.(BoxedVal)
		by, oky := yv.(BoxedVal)
		if okx && oky {
			if !types.Identical(bx.Type, by.Type) {
				return smt.False
			}
			return x.equal(s, bx.Inner, by.Inner, bx.Type, by.Type)
		}
	}
	a, b := x.toTerm(s, xv, xt), x.toTerm(s, yv, yt)
	if a.Sort != b.Sort {
		panic(outsideSubset(fmt.Sprintf("comparison between sorts %s and %s", a.Sort, b.Sort)))
	}
	if _, isSlice := xt.Underlying().(*types.Slice); isSlice {
		// only comparison with nil is legal Go
		x.E.Note("slice == nil is modelled as len == 0 (nil and empty slices identified) in %s", x.fn.String())
		other := a
		if lit, ok := smt.SeqLit(a); ok && len(lit) == 0 {
			other = b
		}
		return smt.Eq(smt.SeqLen(other), smt.IntC(0))
	}
	return smt.Eq(a, b)
}
