// Package vc: verification-condition generator over naive-form go/ssa.
package vc

import (
	"fmt"
	"go/token"
	"go/types"
	"math/big"
	"os"
	"path/filepath"
	"sort"
	"strings"
	"sync"

	"golang.org/x/tools/go/packages"
	"golang.org/x/tools/go/ssa"
	"golang.org/x/tools/go/ssa/ssautil"

	"govc/smt"
	"govc/spec"
)

type Contract struct {
	*spec.FuncContract
	Obj      *types.Func
	Fn       *ssa.Function // nil for externals / interface methods
	PkgPath  string        // package whose contract file declared it
	SpecPkg  *types.Package
	Params   []*types.Var // receiver first (if any)
	Results  []*types.Var
	ParamNm  []string
	ResultNm []string
	IsInit   bool
}

type SpecFuncInfo struct {
	*spec.SpecFunc
	Pkg         *types.Package
	Recursive   bool
	ParamSort   []*smt.Sort
	ParamGo     []types.Type
	ResSort     *smt.Sort
	ResGo       types.Type
	defText     string
	def         *smt.DefFun
	defDeps     []string
	building    bool
	discovering bool
	hidden      []string // heap entries read by a recursive spec function (hidden parameters)
}

type GhostFieldInfo struct {
	Owner   types.Type // struct type (key Ref) or interface type (key Iface); nil => any iface
	KeySort *smt.Sort
	Name    string
	Sort    *smt.Sort
	GoType  types.Type
	Heap    string
}

type Engine struct {
	Fset           *token.FileSet
	Prog           *ssa.Program
	Pkgs           []*packages.Package
	SSAPkgs        map[string]*ssa.Package
	ByName         map[string][]*packages.Package
	Contracts      map[*types.Func]*Contract
	FieldContracts map[*types.Var]*FieldContract
	SpecFuncs      map[string]*SpecFuncInfo
	GhostF         map[string]*GhostFieldInfo // by name (unique)
	GhostV         map[string]*GhostFieldInfo // ghost globals: Heap + Sort
	Axioms         []*AxiomInfo
	Guards         []GuardInfo
	GlobalInvs     []*GlobalInv
	Lemmas         map[string]*LemmaInfo
	Writers        []*WritersInfo
	restricted     map[string]*WritersInfo // heap name -> declaration
	canReach       map[*WritersInfo]map[*ssa.Function]bool
	HeapSorts      map[string]*smt.Sort
	HeapGo         map[string]types.Type
	typeTags       map[string]int
	tagTypes       []types.Type
	Notes          map[string]bool // assumptions encountered
	Errors         []string
	RepoDir        string
	fnConsts       map[string]*smt.Term
	Files          []*spec.File
	usedContracts  map[*Contract]bool
	aliases        map[*types.Package]map[string]*types.Package // import aliases used in a package's source files
	filePkg        map[*spec.File]*types.Package
}

type AxiomInfo struct {
	*spec.Axiom
	Pkg *types.Package
}

type WritersInfo struct {
	*spec.WritersSpec
	Pkg     *types.Package
	Struct  types.Type
	Heaps   []string
	Allowed map[*ssa.Function]bool
}

type LemmaInfo struct {
	*spec.LemmaDef
	Pkg *types.Package
}

type GlobalInv struct {
	*spec.Clause
	Pkg *types.Package
}

type GuardInfo struct {
	spec.GuardSpec
	Pkg *types.Package
}

func (e *Engine) Note(format string, args ...any) {
	e.Notes[fmt.Sprintf(format, args...)] = true
}

// Load loads the given package patterns from repo (with -tags verif), builds
// naive-form SSA, and parses every verif_contracts*.go file in those packages
// plus extra contract files (stdlib contracts).
func Load(repo string, patterns []string, extraSpecs []string) (*Engine, error) {
	cfg := &packages.Config{
		Mode:       packages.LoadAllSyntax,
		Dir:        repo,
		BuildFlags: []string{"-tags=verif"},
		Env:        append(os.Environ(), "GOFLAGS=-mod=mod", "GOPROXY=off", "GOSUMDB=off", "GOTOOLCHAIN=local"),
	}
	pkgs, err := packages.Load(cfg, patterns...)
	if err != nil {
		return nil, err
	}
	for _, p := range pkgs {
		if len(p.Errors) > 0 {
			return nil, fmt.Errorf("package %s: %v", p.PkgPath, p.Errors[0])
		}
	}
	prog, _ := ssautil.AllPackages(pkgs, ssa.NaiveForm|ssa.GlobalDebug)
	prog.Build()
	e := &Engine{
		Fset: pkgs[0].Fset, Prog: prog, Pkgs: pkgs, SSAPkgs: map[string]*ssa.Package{}, ByName: map[string][]*packages.Package{},
		Contracts: map[*types.Func]*Contract{}, FieldContracts: map[*types.Var]*FieldContract{}, SpecFuncs: map[string]*SpecFuncInfo{}, GhostF: map[string]*GhostFieldInfo{},
		GhostV: map[string]*GhostFieldInfo{}, HeapSorts: map[string]*smt.Sort{}, HeapGo: map[string]types.Type{},
		typeTags: map[string]int{}, Notes: map[string]bool{}, RepoDir: repo, fnConsts: map[string]*smt.Term{},
		filePkg: map[*spec.File]*types.Package{}, usedContracts: map[*Contract]bool{},
	}
	e.aliases = map[*types.Package]map[string]*types.Package{}
	packages.Visit(pkgs, nil, func(p *packages.Package) {
		for _, f := range p.Syntax {
			for _, im := range f.Imports {
				if im.Name == nil || im.Name.Name == "_" || im.Name.Name == "." {
					continue
				}
				path := strings.Trim(im.Path.Value, "\"")
				if ip, ok := p.Imports[path]; ok && ip.Types != nil {
					if e.aliases[p.Types] == nil {
						e.aliases[p.Types] = map[string]*types.Package{}
					}
					e.aliases[p.Types][im.Name.Name] = ip.Types
				}
			}
		}
		e.ByName[p.Name] = append(e.ByName[p.Name], p)
		if sp := prog.Package(p.Types); sp != nil {
			e.SSAPkgs[p.PkgPath] = sp
		}
	})
	// contract files in the loaded root packages
	var files []*spec.File
	for _, p := range pkgs {
		for _, gf := range p.GoFiles {
			if strings.HasPrefix(filepath.Base(gf), "verif_contracts") {
				f, err := spec.ParseFile(gf)
				if err != nil {
					return nil, err
				}
				files = append(files, f)
				e.filePkg[f] = p.Types
			}
		}
	}
	for _, path := range extraSpecs {
		f, err := spec.ParseFile(path)
		if err != nil {
			return nil, err
		}
		files = append(files, f)
		e.filePkg[f] = nil
	}
	e.Files = files
	// pass 1: ghost fields, ghost vars, spec funcs (signatures)
	for _, f := range files {
		pkg := e.filePkg[f]
		for _, gf := range f.GhostFields {
			if err := e.addGhostField(pkg, gf); err != nil {
				return nil, fmt.Errorf("%s: %v", f.Path, err)
			}
		}
		for _, gv := range f.GhostVars {
			s, gt, err := e.resolveType(pkg, gv.Type)
			if err != nil {
				return nil, fmt.Errorf("%s: ghost var %s: %v", f.Path, gv.Name, err)
			}
			h := "GV$" + gv.Name
			e.GhostV[gv.Name] = &GhostFieldInfo{Name: gv.Name, Sort: s, GoType: gt, Heap: h}
			e.HeapSorts[h] = s
		}
		for _, sf := range f.SpecFuncs {
			if _, dup := e.SpecFuncs[sf.Name]; dup {
				return nil, fmt.Errorf("%s:%d: duplicate spec function %s", sf.File, sf.Line, sf.Name)
			}
			info := &SpecFuncInfo{SpecFunc: sf, Pkg: pkg}
			for _, p := range sf.Params {
				s, gt, err := e.resolveType(pkg, p.Type)
				if err != nil {
					return nil, fmt.Errorf("%s:%d: %v", sf.File, sf.Line, err)
				}
				info.ParamSort = append(info.ParamSort, s)
				info.ParamGo = append(info.ParamGo, gt)
			}
			s, gt, err := e.resolveType(pkg, sf.Result)
			if err != nil {
				return nil, fmt.Errorf("%s:%d: %v", sf.File, sf.Line, err)
			}
			info.ResSort, info.ResGo = s, gt
			if sf.Body != nil {
				info.Recursive = mentionsCall(sf.Body, sf.Name)
			}
			e.SpecFuncs[sf.Name] = info
		}
		for _, ax := range f.Axioms {
			e.Axioms = append(e.Axioms, &AxiomInfo{Axiom: ax, Pkg: pkg})
		}
		for _, g := range f.Guarded {
			e.Guards = append(e.Guards, GuardInfo{GuardSpec: g, Pkg: pkg})
		}
		for _, gi := range f.GlobalInvs {
			e.GlobalInvs = append(e.GlobalInvs, &GlobalInv{Clause: gi, Pkg: pkg})
		}
		for _, ws := range f.Writers {
			e.Writers = append(e.Writers, &WritersInfo{WritersSpec: ws, Pkg: pkg})
		}
		for _, ld := range f.Lemmas {
			if e.Lemmas == nil {
				e.Lemmas = map[string]*LemmaInfo{}
			}
			e.Lemmas[ld.Name] = &LemmaInfo{LemmaDef: ld, Pkg: pkg}
		}
	}
	// pass 2: function contracts
	for _, f := range files {
		pkg := e.filePkg[f]
		for _, fc := range f.Funcs {
			if strings.HasPrefix(fc.Name, "field ") {
				// field T.f : contract on calls through a function-typed struct field
				tn := strings.TrimSpace(strings.TrimPrefix(fc.Name, "field "))
				d := strings.LastIndex(tn, ".")
				ot, err := e.lookupNamed(pkg, tn[:d])
				if err != nil {
					return nil, fmt.Errorf("%s:%d: CONTRACT-STALE %v", fc.File, fc.Line, err)
				}
				u, ok := ot.Underlying().(*types.Struct)
				found := false
				for i := 0; ok && i < u.NumFields(); i++ {
					if u.Field(i).Name() == tn[d+1:] {
						sig, _ := u.Field(i).Type().Underlying().(*types.Signature)
						e.FieldContracts[u.Field(i)] = &FieldContract{FuncContract: fc, Field: u.Field(i), Owner: ot, Sig: sig}
						found = true
					}
				}
				if !found {
					return nil, fmt.Errorf("%s:%d: CONTRACT-STALE field %s not found", fc.File, fc.Line, tn)
				}
				continue
			}
			obj, err := e.resolveFunc(pkg, fc.Name)
			if err != nil {
				return nil, fmt.Errorf("%s:%d: CONTRACT-STALE %v", fc.File, fc.Line, err)
			}
			if _, dup := e.Contracts[obj]; dup {
				return nil, fmt.Errorf("%s:%d: duplicate contract for %s", fc.File, fc.Line, fc.Name)
			}
			c := &Contract{FuncContract: fc, Obj: obj, SpecPkg: pkg}
			if pkg != nil {
				c.PkgPath = pkg.Path()
			}
			c.Fn = prog.FuncValue(obj)
			if c.Fn != nil && len(c.Fn.Blocks) == 0 {
				c.Fn = nil
			}
			sig := obj.Type().(*types.Signature)
			if sig.Recv() != nil {
				c.Params = append(c.Params, sig.Recv())
			}
			for i := 0; i < sig.Params().Len(); i++ {
				c.Params = append(c.Params, sig.Params().At(i))
			}
			for i := 0; i < sig.Results().Len(); i++ {
				c.Results = append(c.Results, sig.Results().At(i))
			}
			for i, p := range c.Params {
				n := p.Name()
				if i < len(fc.ParamNames) {
					n = fc.ParamNames[i]
				}
				if n == "" || n == "_" {
					if i == 0 && sig.Recv() != nil {
						n = "recv"
					} else {
						n = fmt.Sprintf("arg%d", i)
					}
				}
				c.ParamNm = append(c.ParamNm, n)
			}
			for i, r := range c.Results {
				n := r.Name()
				if i < len(fc.ResNames) {
					n = fc.ResNames[i]
				}
				if n == "" || n == "_" {
					if len(c.Results) == 1 {
						n = "result"
					} else {
						n = fmt.Sprintf("result%d", i)
					}
				}
				c.ResultNm = append(c.ResultNm, n)
			}
			e.Contracts[obj] = c
		}
	}
	if err := e.resolveWriters(); err != nil {
		return nil, err
	}
	return e, nil
}

// resolveWriters binds `writers` declarations: heap entries of the listed fields become write-restricted.
func (e *Engine) resolveWriters() error {
	e.restricted = map[string]*WritersInfo{}
	e.canReach = map[*WritersInfo]map[*ssa.Function]bool{}
	for _, w := range e.Writers {
		st, err := e.lookupNamed(w.Pkg, w.Type)
		if err != nil {
			return fmt.Errorf("%s:%d: CONTRACT-STALE writers: %v", w.File, w.Line, err)
		}
		u, ok := st.Underlying().(*types.Struct)
		if !ok {
			return fmt.Errorf("%s:%d: writers: %s is not a struct", w.File, w.Line, w.Type)
		}
		w.Struct = st
		for i := 0; i < u.NumFields(); i++ {
			want := len(w.Fields) == 0
			for _, f := range w.Fields {
				if f == u.Field(i).Name() {
					want = true
				}
			}
			if !want || isStruct(u.Field(i).Type()) {
				continue
			}
			h, _, _ := e.fieldHeap(st, i)
			w.Heaps = append(w.Heaps, h)
			e.restricted[h] = w
		}
		if len(w.Fields) > 0 && len(w.Heaps) != len(w.Fields) {
			return fmt.Errorf("%s:%d: CONTRACT-STALE writers: some of the fields %v not found in %s", w.File, w.Line, w.Fields, w.Type)
		}
		w.Allowed = map[*ssa.Function]bool{}
		for _, name := range w.Only {
			obj, err := e.resolveFunc(w.Pkg, name)
			if err != nil {
				return fmt.Errorf("%s:%d: CONTRACT-STALE writers: %v", w.File, w.Line, err)
			}
			if f := e.Prog.FuncValue(obj); f != nil {
				w.Allowed[f] = true
			}
		}
		// functions that can reach an allowed writer through static calls (closures included)
		reach := map[*ssa.Function]bool{}
		for f := range w.Allowed {
			reach[f] = true
		}
		var fns []*ssa.Function
		for _, sp := range e.SSAPkgs {
			if e.inModule(sp.Pkg) {
				fns = append(fns, allFunctions(sp)...)
			}
		}
		for changed := true; changed; {
			changed = false
			for _, f := range fns {
				if reach[f] {
					continue
				}
				for _, b := range f.Blocks {
					for _, in := range b.Instrs {
						var callee *ssa.Function
						switch in := in.(type) {
						case *ssa.Call:
							callee = staticFn(&in.Call)
						case *ssa.Defer:
							callee = staticFn(&in.Call)
						case *ssa.Go:
							callee = staticFn(&in.Call)
						case *ssa.MakeClosure:
							callee, _ = in.Fn.(*ssa.Function)
						}
						if callee != nil && reach[callee] {
							reach[f] = true
							changed = true
						}
					}
				}
			}
		}
		e.canReach[w] = reach
	}
	return nil
}

// preservedAcross lists the write-restricted heap entries a call to fn cannot change.
func (e *Engine) preservedAcross(fn *ssa.Function) map[string]bool {
	out := map[string]bool{}
	for _, w := range e.Writers {
		if fn != nil && e.canReach[w][fn] {
			continue
		}
		for _, h := range w.Heaps {
			out[h] = true
		}
	}
	return out
}

func mentionsCall(x spec.Expr, name string) bool {
	found := false
	var walk func(x spec.Expr)
	walk = func(x spec.Expr) {
		switch x := x.(type) {
		case *spec.Call:
			if id, ok := x.Fun.(*spec.Ident); ok && id.Name == name {
				found = true
			}
			walk(x.Fun)
			for _, a := range x.Args {
				walk(a)
			}
		case *spec.Unary:
			walk(x.X)
		case *spec.Binary:
			walk(x.X)
			walk(x.Y)
		case *spec.Index:
			walk(x.X)
			walk(x.I)
		case *spec.Slice:
			walk(x.X)
			if x.Lo != nil {
				walk(x.Lo)
			}
			if x.Hi != nil {
				walk(x.Hi)
			}
		case *spec.Sel:
			walk(x.X)
		case *spec.Quant:
			walk(x.Body)
		case *spec.TypeAssert:
			walk(x.X)
		case *spec.SeqLit:
			for _, a := range x.Elems {
				walk(a)
			}
		}
	}
	walk(x)
	return found
}

// ---------- name resolution ----------

func (e *Engine) findPkgByName(from *types.Package, name string) *types.Package {
	if from != nil {
		if a, ok := e.aliases[from][name]; ok {
			return a
		}
		if from.Name() == name {
			return from
		}
		for _, imp := range from.Imports() {
			if imp.Name() == name {
				return imp
			}
		}
	}
	if ps := e.ByName[name]; len(ps) > 0 {
		// prefer std / shortest path
		best := ps[0]
		for _, p := range ps {
			if len(p.PkgPath) < len(best.PkgPath) {
				best = p
			}
		}
		return best.Types
	}
	return nil
}

func (e *Engine) lookupNamed(from *types.Package, name string) (types.Type, error) {
	if t := types.Universe.Lookup(name); t != nil {
		if tn, ok := t.(*types.TypeName); ok {
			return tn.Type(), nil
		}
	}
	if i := strings.LastIndex(name, "."); i >= 0 {
		p := e.findPkgByName(from, name[:i])
		if p == nil {
			return nil, fmt.Errorf("unknown package %q", name[:i])
		}
		o := p.Scope().Lookup(name[i+1:])
		if tn, ok := o.(*types.TypeName); ok {
			return tn.Type(), nil
		}
		return nil, fmt.Errorf("unknown type %s", name)
	}
	if from != nil {
		if tn, ok := from.Scope().Lookup(name).(*types.TypeName); ok {
			return tn.Type(), nil
		}
	}
	return nil, fmt.Errorf("unknown type %s", name)
}

// resolveFunc resolves "f", "(*T).m", "T.m", "pkg.f", "pkg.(*T).m", "pkg.T.m".
func (e *Engine) resolveFunc(from *types.Package, name string) (*types.Func, error) {
	name = strings.TrimSpace(name)
	pkg := from
	rest := name
	// full import path qualifier: github.com/x/y.T.m
	if k := strings.LastIndex(name, "/"); k >= 0 && !strings.HasPrefix(name, "(") {
		if i := strings.Index(name[k:], "."); i >= 0 {
			path := name[:k+i]
			var found *types.Package
			packages.Visit(e.Pkgs, nil, func(p *packages.Package) {
				if p.PkgPath == path {
					found = p.Types
				}
			})
			if found == nil {
				return nil, fmt.Errorf("cannot resolve %q: package %s not loaded", name, path)
			}
			pkg = found
			rest = name[k+i+1:]
			from = found
		}
	}
	// leading "pkg." qualifier (pkg is identifier chars up to first '.' and not starting with '(')
	if !strings.HasPrefix(rest, "(") {
		if i := strings.Index(rest, "."); i >= 0 {
			cand := rest[:i]
			var scopeHas bool
			if from != nil {
				scopeHas = from.Scope().Lookup(cand) != nil
			}
			if !scopeHas {
				p := e.findPkgByName(from, cand)
				if p == nil {
					return nil, fmt.Errorf("cannot resolve %q: unknown package or type %q", name, cand)
				}
				pkg = p
				rest = rest[i+1:]
			}
		}
	}
	if pkg == nil {
		return nil, fmt.Errorf("cannot resolve %q: no package", name)
	}
	if strings.HasPrefix(rest, "(*") {
		j := strings.Index(rest, ").")
		if j < 0 {
			return nil, fmt.Errorf("bad method name %q", name)
		}
		tn, mn := rest[2:j], rest[j+2:]
		o, ok := pkg.Scope().Lookup(tn).(*types.TypeName)
		if !ok {
			return nil, fmt.Errorf("type %s not found in %s", tn, pkg.Path())
		}
		ms := types.NewMethodSet(types.NewPointer(o.Type()))
		for i := 0; i < ms.Len(); i++ {
			if ms.At(i).Obj().Name() == mn {
				return ms.At(i).Obj().(*types.Func), nil
			}
		}
		return nil, fmt.Errorf("method %s not found on *%s", mn, tn)
	}
	if i := strings.Index(rest, "."); i >= 0 {
		tn, mn := rest[:i], rest[i+1:]
		o, ok := pkg.Scope().Lookup(tn).(*types.TypeName)
		if !ok {
			return nil, fmt.Errorf("type %s not found in %s", tn, pkg.Path())
		}
		if it, ok := o.Type().Underlying().(*types.Interface); ok {
			for i := 0; i < it.NumMethods(); i++ {
				if it.Method(i).Name() == mn {
					return it.Method(i), nil
				}
			}
			return nil, fmt.Errorf("interface method %s.%s not found", tn, mn)
		}
		ms := types.NewMethodSet(o.Type())
		for i := 0; i < ms.Len(); i++ {
			if ms.At(i).Obj().Name() == mn {
				return ms.At(i).Obj().(*types.Func), nil
			}
		}
		ms = types.NewMethodSet(types.NewPointer(o.Type()))
		for i := 0; i < ms.Len(); i++ {
			if ms.At(i).Obj().Name() == mn {
				return ms.At(i).Obj().(*types.Func), nil
			}
		}
		return nil, fmt.Errorf("method %s not found on %s", mn, tn)
	}
	if fn, ok := pkg.Scope().Lookup(rest).(*types.Func); ok {
		return fn, nil
	}
	return nil, fmt.Errorf("function %s not found in %s", rest, pkg.Path())
}

func (e *Engine) resolveType(from *types.Package, t *spec.Type) (*smt.Sort, types.Type, error) {
	switch t.Kind {
	case "name":
		switch t.Name {
		case "mathint":
			return smt.Int, nil, nil
		case "Ref":
			return smt.Ref, nil, nil
		case "any":
			return smt.Iface, types.NewInterfaceType(nil, nil), nil
		}
		gt, err := e.lookupNamed(from, t.Name)
		if err != nil {
			return nil, nil, err
		}
		return e.SortOf(gt), gt, nil
	case "seq", "slice":
		s, gt, err := e.resolveType(from, t.Elem)
		if err != nil {
			return nil, nil, err
		}
		var g types.Type
		if gt != nil {
			g = types.NewSlice(gt)
		}
		return smt.Seq(s), g, nil
	case "ptr":
		_, gt, err := e.resolveType(from, t.Elem)
		if err != nil {
			return nil, nil, err
		}
		return smt.Ref, types.NewPointer(gt), nil
	case "set":
		s, _, err := e.resolveType(from, t.Elem)
		if err != nil {
			return nil, nil, err
		}
		return smt.Arr(s, smt.Bool), nil, nil
	case "map":
		k, _, err := e.resolveType(from, t.Key)
		if err != nil {
			return nil, nil, err
		}
		v, _, err := e.resolveType(from, t.Elem)
		if err != nil {
			return nil, nil, err
		}
		return smt.Arr(k, v), nil, nil
	}
	return nil, nil, fmt.Errorf("bad type %s", t)
}

func (e *Engine) addGhostField(from *types.Package, gf *spec.GhostField) error {
	s, gt, err := e.resolveType(from, gf.Type)
	if err != nil {
		return err
	}
	info := &GhostFieldInfo{Name: gf.Name, Sort: s, GoType: gt}
	if gf.Owner == "iface" || gf.Owner == "any" {
		info.KeySort = smt.Iface
	} else {
		ot, err := e.lookupNamed(from, gf.Owner)
		if err != nil {
			return err
		}
		info.Owner = ot
		info.KeySort = e.SortOf(ot)
		if _, ok := ot.Underlying().(*types.Struct); ok {
			info.KeySort = smt.Ref
		}
	}
	info.Heap = "GF$" + gf.Name
	if _, dup := e.GhostF[gf.Name]; dup {
		return fmt.Errorf("duplicate ghost field %s", gf.Name)
	}
	e.GhostF[gf.Name] = info
	e.HeapSorts[info.Heap] = smt.Arr(info.KeySort, s)
	return nil
}

// ---------- sorts of Go types ----------

func typeKey(t types.Type) string {
	return types.TypeString(t, func(p *types.Package) string { return p.Path() })
}

func shortTypeName(t types.Type) string {
	s := types.TypeString(t, func(p *types.Package) string { return p.Name() })
	var b strings.Builder
	for _, r := range s {
		switch {
		case r >= 'a' && r <= 'z', r >= 'A' && r <= 'Z', r >= '0' && r <= '9', r == '_', r == '.':
			b.WriteRune(r)
		case r == '*':
			b.WriteString("ptr_")
		case r == '[' || r == ']':
			b.WriteString("_")
		default:
			b.WriteByte('_')
		}
	}
	return b.String()
}

var dataNames = map[string]string{}    // typeKey -> data sort name
var dataNameUsed = map[string]string{} // name -> typeKey

func (e *Engine) SortOf(t types.Type) *smt.Sort {
	switch u := t.Underlying().(type) {
	case *types.Basic:
		switch {
		case u.Info()&types.IsInteger != 0:
			return smt.Int
		case u.Info()&types.IsBoolean != 0:
			return smt.Bool
		case u.Info()&types.IsString != 0:
			return smt.Seq(smt.Int)
		case u.Kind() == types.UnsafePointer:
			return smt.Ref
		case u.Kind() == types.UntypedNil:
			return smt.Ref
		}
		return smt.Unint("Float")
	case *types.Pointer:
		return smt.Ref
	case *types.Slice:
		return smt.Seq(e.SortOf(u.Elem()))
	case *types.Array:
		return smt.Seq(e.SortOf(u.Elem()))
	case *types.Struct:
		k := typeKey(t)
		if n, ok := dataNames[k]; ok {
			return smt.DataDefs[n].Sort
		}
		name := "S_" + shortTypeName(t)
		if len(name) > 60 {
			name = name[:60]
		}
		for i := 0; ; i++ {
			cand := name
			if i > 0 {
				cand = fmt.Sprintf("%s_%d", name, i)
			}
			if _, used := dataNameUsed[cand]; !used {
				name = cand
				break
			}
		}
		dataNames[k] = name
		dataNameUsed[name] = k
		var fields []string
		var sorts []*smt.Sort
		for i := 0; i < u.NumFields(); i++ {
			fields = append(fields, fmt.Sprintf("%s.%s", name, fieldName(u, i)))
			sorts = append(sorts, e.SortOf(u.Field(i).Type()))
		}
		if len(fields) == 0 {
			fields = append(fields, name+".$unit")
			sorts = append(sorts, smt.Bool)
		}
		return smt.Data(name, fields, sorts)
	case *types.Interface:
		return smt.Iface
	case *types.Signature:
		return smt.Fn
	case *types.Map, *types.Chan:
		return smt.Ref
	case *types.Tuple:
		return smt.Unint("Tuple")
	case *types.TypeParam:
		return smt.Iface
	}
	return smt.Unint("Opaque")
}

func fieldName(st *types.Struct, i int) string {
	n := st.Field(i).Name()
	if n == "_" {
		return fmt.Sprintf("_%d", i)
	}
	return n
}

// Integer kinds.
func IntInfo(t types.Type) (bits int, signed bool, ok bool) {
	b, isB := t.Underlying().(*types.Basic)
	if !isB || b.Info()&types.IsInteger == 0 {
		return 0, false, false
	}
	switch b.Kind() {
	case types.Int8:
		return 8, true, true
	case types.Int16:
		return 16, true, true
	case types.Int32:
		return 32, true, true
	case types.Int64, types.Int:
		return 64, true, true
	case types.Uint8:
		return 8, false, true
	case types.Uint16:
		return 16, false, true
	case types.Uint32:
		return 32, false, true
	case types.Uint64, types.Uint, types.Uintptr:
		return 64, false, true
	case types.UntypedInt, types.UntypedRune:
		return 64, true, true
	}
	return 0, false, false
}

func pow2(n int) *big.Int { return new(big.Int).Lsh(big.NewInt(1), uint(n)) }

func IntRange(bits int, signed bool) (lo, hi *big.Int) {
	if signed {
		return new(big.Int).Neg(pow2(bits - 1)), new(big.Int).Sub(pow2(bits-1), big.NewInt(1))
	}
	return big.NewInt(0), new(big.Int).Sub(pow2(bits), big.NewInt(1))
}

// Wrap reduces an exact integer term into the machine range.
func Wrap(t *smt.Term, bits int, signed bool) *smt.Term {
	lo, hi := IntRange(bits, signed)
	l, h := smt.Bounds(t)
	if l != nil && h != nil && l.Cmp(lo) >= 0 && h.Cmp(hi) <= 0 {
		return t
	}
	M := pow2(bits)
	var r *smt.Term
	if t.IsInt() {
		v := new(big.Int).Mod(t.Int, M)
		if signed && v.Cmp(hi) > 0 {
			v.Sub(v, M)
		}
		return smt.IntB(v)
	}
	loM := new(big.Int).Sub(lo, M)
	hiM := new(big.Int).Add(hi, M)
	if l != nil && h != nil && l.Cmp(loM) >= 0 && h.Cmp(hiM) <= 0 {
		r = t
		if h.Cmp(hi) > 0 {
			r = smt.Ite(smt.Gt(t, smt.IntB(hi)), smt.Sub(t, smt.IntB(M)), r)
		}
		if l.Cmp(lo) < 0 {
			r = smt.Ite(smt.Lt(t, smt.IntB(lo)), smt.Add(t, smt.IntB(M)), r)
		}
	} else if signed {
		half := pow2(bits - 1)
		r = smt.Sub(smt.Mod(smt.Add(t, smt.IntB(half)), smt.IntB(M)), smt.IntB(half))
	} else {
		r = smt.Mod(t, smt.IntB(M))
	}
	smt.SetRange(r, lo, hi)
	return r
}

// ---------- heap naming ----------

// structOf returns the struct type behind a pointer/named type, and a key name.
func (e *Engine) fieldHeap(st types.Type, idx int) (name string, sort *smt.Sort, ft types.Type) {
	u := st.Underlying().(*types.Struct)
	ft = u.Field(idx).Type()
	name = "H$" + shortTypeName(st) + "$" + fieldName(u, idx)
	sort = smt.Arr(smt.Ref, e.SortOf(ft))
	if old, ok := e.HeapGo[name]; ok {
		if typeKey(old) != typeKey(st) {
			// disambiguate by full key hash
			name = fmt.Sprintf("H$%s$%s$%d", shortTypeName(st), fieldName(u, idx), len(typeKey(st)))
		}
	}
	e.HeapSorts[name] = sort
	e.HeapGo[name] = st
	return
}

func (e *Engine) boxHeap(t types.Type) (string, *smt.Sort) {
	name := "P$" + shortTypeName(t)
	s := smt.Arr(smt.Ref, e.SortOf(t))
	e.HeapSorts[name] = s
	return name, s
}

func init() {
	smt.GroundAxiomHook = func(t *smt.Term) []*smt.Term {
		if t.Name == "root$ref" {
			return []*smt.Term{smt.Eq(RootOf(RefNil), RefNil)}
		}
		if t.Name == "typeof" {
			return []*smt.Term{smt.Eq(TypeOf(IfaceNil), smt.IntC(0))}
		}
		if strings.HasPrefix(t.Name, "sub$") && len(t.Args) == 1 {
			// interior references made by different (struct type, field) pairs are different locations
			subTagsMu.Lock()
			tag, ok := subTags[t.Name]
			if !ok {
				tag = len(subTags) + 1
				subTags[t.Name] = tag
			}
			subTagsMu.Unlock()
			return []*smt.Term{smt.Neq(t, RefNil), smt.Eq(smt.App("parent$"+t.Name, smt.Ref, t), t.Args[0]),
				smt.Eq(RootOf(t), RootOf(t.Args[0])), smt.Eq(smt.App("subtag$ref", smt.Int, t), smt.IntC(int64(tag)))}
		}
		return nil
	}
}

var subTags = map[string]int{}
var subTagsMu sync.Mutex

// RootOf maps an interior reference (embedded struct) to the allocated object that contains it.
func RootOf(r *smt.Term) *smt.Term { return smt.App("root$ref", smt.Ref, r) }

func (e *Engine) subRef(st types.Type, idx int, r *smt.Term) *smt.Term {
	u := st.Underlying().(*types.Struct)
	return smt.App("sub$"+shortTypeName(st)+"$"+fieldName(u, idx), smt.Ref, r)
}

func (e *Engine) mapHeaps(mt types.Type) (dom, val string, ks, vs *smt.Sort) {
	m := mt.Underlying().(*types.Map)
	ks, vs = e.SortOf(m.Key()), e.SortOf(m.Elem())
	n := shortTypeName(mt)
	dom, val = "MD$"+n, "MV$"+n
	e.HeapSorts[dom] = smt.Arr(smt.Ref, smt.Arr(ks, smt.Bool))
	e.HeapSorts[val] = smt.Arr(smt.Ref, smt.Arr(ks, vs))
	return
}

func (e *Engine) mapDomHeap(mt types.Type) string {
	d, _, _, _ := e.mapHeaps(mt)
	return d
}

// mapLen: len of a map as an uninterpreted function of its key set; zero exactly when the set is empty.
func (e *Engine) mapLen(mt types.Type, dom *smt.Term) (*smt.Term, []*smt.Term) {
	_, _, ks, _ := e.mapHeaps(mt)
	r := smt.App("maplen$"+shortTypeName(mt), smt.Int, dom)
	k := smt.Var(smt.FreshName("ml$k"), ks)
	empty := smt.Forall([]*smt.Term{k}, smt.Not(smt.Select(dom, k)))
	return r, []*smt.Term{smt.Le(smt.IntC(0), r), smt.Implies(smt.Eq(r, smt.IntC(0)), empty), smt.Implies(empty, smt.Eq(r, smt.IntC(0)))}
}

func (e *Engine) globalHeap(g *ssa.Global) (string, *smt.Sort) {
	name := "GL$" + g.Pkg.Pkg.Name() + "." + g.Name()
	s := e.SortOf(g.Type().(*types.Pointer).Elem())
	e.HeapSorts[name] = s
	return name, s
}

func (e *Engine) TypeTag(t types.Type) int {
	k := typeKey(t)
	if n, ok := e.typeTags[k]; ok {
		return n
	}
	e.tagTypes = append(e.tagTypes, t)
	e.typeTags[k] = len(e.tagTypes)
	return len(e.tagTypes)
}

func (e *Engine) TagType(n int) types.Type {
	if n >= 1 && n <= len(e.tagTypes) {
		return e.tagTypes[n-1]
	}
	return nil
}

var IfaceNil = smt.Var("iface$nil", smt.Iface)
var RefNil = smt.Var("ref$nil", smt.Ref)
var FnNil = smt.Var("fn$nil", smt.Fn)

func TypeOf(x *smt.Term) *smt.Term { return smt.App("typeof", smt.Int, x) }

func (e *Engine) Box(t types.Type, v *smt.Term) (*smt.Term, []*smt.Term) {
	name := "box$" + shortTypeName(t)
	b := smt.App(name, smt.Iface, v)
	facts := []*smt.Term{
		smt.Eq(TypeOf(b), smt.IntC(int64(e.TypeTag(t)))),
		smt.Eq(e.Unbox(t, b), v),
		smt.Neq(b, IfaceNil),
	}
	return b, facts
}

func (e *Engine) Unbox(t types.Type, x *smt.Term) *smt.Term {
	return smt.App("unbox$"+shortTypeName(t), e.SortOf(t), x)
}

func (e *Engine) FnConst(f *ssa.Function) *smt.Term {
	n := "fn$" + f.String()
	if t, ok := e.fnConsts[n]; ok {
		return t
	}
	t := smt.Var(smt.FreshName(n), smt.Fn)
	e.fnConsts[n] = t
	return t
}

// SortedContracts returns contracts in deterministic order.
func (e *Engine) SortedContracts() []*Contract {
	var cs []*Contract
	for _, c := range e.Contracts {
		cs = append(cs, c)
	}
	sort.Slice(cs, func(i, j int) bool { return cs[i].Obj.FullName() < cs[j].Obj.FullName() })
	return cs
}
