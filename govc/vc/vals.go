package vc

import (
	"fmt"
	"go/constant"
	"go/types"
	"math/big"
	"strings"

	"golang.org/x/tools/go/ssa"

	"govc/smt"
)

// Val is an executor-level value.
type Val interface{}

type (
	// TermVal: an SMT term of the sort of its Go type.
	TermVal struct{ T *smt.Term }
	// AddrVal: a pointer the executor tracks structurally.
	AddrVal struct{ A *Addr }
	// BoxedVal: an interface value with statically known dynamic type.
	BoxedVal struct {
		Type  types.Type
		Inner Val
	}
	// ListVal: a small aggregate with executor-known elements (varargs arrays).
	ListVal struct {
		Elem  types.Type
		Elems []Val
	}
	// TupleVal: multiple results.
	TupleVal struct{ Elems []Val }
	// FuncVal: a known function (possibly closure).
	FuncVal struct {
		Fn       *ssa.Function
		Bindings []Val
	}
	// BoundMethodVal / opaque values fall back to TermVal of sort Fn.
	// IterVal: map/string range iterator.
	IterVal struct {
		X     Val
		IsStr bool
		Key   string
	}
)

type StepKind int

const (
	StepIndex StepKind = iota
	StepField
)

type Step struct {
	Kind  StepKind
	Index *smt.Term
	Field int
	Type  types.Type // type of the container this step applies to
}

type BaseKind int

const (
	BaseCell BaseKind = iota
	BaseHeapField
	BaseGlobal
	BaseSlice // a slice value; Origin tells where it was loaded from (may be nil)
	BaseBox   // pointer-to-non-struct held as Ref
	BaseGhost // named heap entry (ghost var)
)

type Addr struct {
	Kind    BaseKind
	Cell    *ssa.Alloc
	Ref     *smt.Term  // BaseHeapField / BaseBox
	Struct  types.Type // BaseHeapField: struct type
	Field   int
	Global  *ssa.Global
	SliceV  *smt.Term
	Origin  *Addr
	ElemTy  types.Type // type of the value at base
	Steps   []Step
	BoxType types.Type
	Heap    string
}

func (a *Addr) withStep(s Step) *Addr {
	n := *a
	n.Steps = append(append([]Step{}, a.Steps...), s)
	return &n
}

// pointee type after steps
func (a *Addr) Type() types.Type {
	t := a.ElemTy
	for _, s := range a.Steps {
		switch s.Kind {
		case StepIndex:
			switch u := t.Underlying().(type) {
			case *types.Slice:
				t = u.Elem()
			case *types.Array:
				t = u.Elem()
			case *types.Basic:
				t = types.Typ[types.Uint8]
			}
		case StepField:
			t = t.Underlying().(*types.Struct).Field(s.Field).Type()
		}
	}
	return t
}

// ---------- state ----------

type deferred struct {
	call *ssa.CallCommon
	args []Val
	fn   Val
	inst *ssa.Defer
}

type State struct {
	heap    map[string]*smt.Term
	cells   map[*ssa.Alloc]Val
	env     map[ssa.Value]Val
	origin  map[ssa.Value]*Addr // where a slice-typed SSA value was loaded from
	pc      []*smt.Term
	defers  []deferred
	inLoops map[*ssa.BasicBlock]bool // loop headers already cut on this path
	depth   int
	trace   []string
	splits  int
	phiFrom []phiSrc // set on a merged state: which predecessor each arrival came from
}

type phiSrc struct {
	guard *smt.Term
	from  *ssa.BasicBlock
}

func (s *State) clone() *State {
	n := &State{
		heap: make(map[string]*smt.Term, len(s.heap)), cells: make(map[*ssa.Alloc]Val, len(s.cells)),
		env: make(map[ssa.Value]Val, len(s.env)), origin: make(map[ssa.Value]*Addr, len(s.origin)),
		inLoops: make(map[*ssa.BasicBlock]bool, len(s.inLoops)), depth: s.depth, splits: s.splits, phiFrom: s.phiFrom,
	}
	for k, v := range s.heap {
		n.heap[k] = v
	}
	for k, v := range s.cells {
		n.cells[k] = v
	}
	for k, v := range s.env {
		n.env[k] = v
	}
	for k, v := range s.origin {
		n.origin[k] = v
	}
	for k, v := range s.inLoops {
		n.inLoops[k] = v
	}
	n.pc = append([]*smt.Term{}, s.pc...)
	n.defers = append([]deferred{}, s.defers...)
	n.trace = append([]string{}, s.trace...)
	return n
}

func (s *State) assume(t *smt.Term) {
	if t.IsTrue() {
		return
	}
	s.pc = append(s.pc, t)
}

func copyHeap(h map[string]*smt.Term) map[string]*smt.Term {
	n := make(map[string]*smt.Term, len(h))
	for k, v := range h {
		n[k] = v
	}
	return n
}

// Heap returns the current term for a heap entry, creating the initial symbol lazily.
func (x *Exec) Heap(s *State, name string) *smt.Term {
	if t, ok := s.heap[name]; ok {
		return t
	}
	srt, ok := x.E.HeapSorts[name]
	if !ok {
		panic("unknown heap " + name)
	}
	// Initial value: shared symbol name so that old-state and current agree until written.
	t := smt.Var(name+"@"+x.epoch, srt)
	s.heap[name] = t
	if x.entryHeap != nil {
		if _, ok := x.entryHeap[name]; !ok {
			x.entryHeap[name] = t
		}
	}
	return t
}

// ---------- zero values, fresh values ----------

func (x *Exec) zeroTerm(t types.Type) *smt.Term {
	switch u := t.Underlying().(type) {
	case *types.Basic:
		switch {
		case u.Info()&types.IsInteger != 0:
			return smt.IntC(0)
		case u.Info()&types.IsBoolean != 0:
			return smt.False
		case u.Info()&types.IsString != 0:
			return smt.SeqEmpty(smt.Int)
		case u.Kind() == types.UnsafePointer || u.Kind() == types.UntypedNil:
			return RefNil
		}
		return smt.Var("float$zero", smt.Unint("Float"))
	case *types.Pointer, *types.Map, *types.Chan:
		return RefNil
	case *types.Slice:
		return smt.SeqEmpty(x.E.SortOf(u.Elem()))
	case *types.Array:
		if u.Len() <= 64 {
			z := x.zeroTerm(u.Elem())
			var parts []*smt.Term
			for i := int64(0); i < u.Len(); i++ {
				parts = append(parts, smt.SeqUnit(z))
			}
			if len(parts) == 0 {
				return smt.SeqEmpty(x.E.SortOf(u.Elem()))
			}
			return smt.SeqConcat(parts...)
		}
		f := smt.Fresh("zeroarr", x.E.SortOf(t))
		k := smt.Var(smt.FreshName("za$i"), smt.Int)
		smt.AddFact(f, smt.Eq(smt.SeqLen(f), smt.IntC(u.Len())))
		smt.AddFact(f, smt.Forall([]*smt.Term{k}, smt.Implies(smt.And(smt.Le(smt.IntC(0), k), smt.Lt(k, smt.IntC(u.Len()))), smt.Eq(smt.SeqNth(f, k), x.zeroTerm(u.Elem()))), []*smt.Term{smt.SeqNth(f, k)}))
		return f
	case *types.Struct:
		s := x.E.SortOf(t)
		var args []*smt.Term
		for i := 0; i < u.NumFields(); i++ {
			args = append(args, x.zeroTerm(u.Field(i).Type()))
		}
		if len(args) == 0 {
			args = append(args, smt.True)
		}
		return smt.Ctor(s, args...)
	case *types.Interface:
		return IfaceNil
	case *types.Signature:
		return FnNil
	}
	return smt.Fresh("zero", x.E.SortOf(t))
}

// freshOf creates an unconstrained value of Go type t, adding type-range facts.
func (x *Exec) freshOf(s *State, t types.Type, hint string) *smt.Term {
	if bits, signed, ok := IntInfo(t); ok {
		lo, hi := IntRange(bits, signed)
		return smt.VarR(smt.FreshName(hint), lo, hi)
	}
	v := smt.Fresh(hint, x.E.SortOf(t))
	x.typeFacts(s, v, t, 0)
	return v
}

// typeFacts adds well-typedness assumptions for a term of Go type t.
func (x *Exec) typeFacts(s *State, v *smt.Term, t types.Type, depth int) {
	if v.IsInt() {
		return
	}
	switch u := t.Underlying().(type) {
	case *types.Basic:
		if bits, signed, ok := IntInfo(t); ok {
			lo, hi := IntRange(bits, signed)
			smt.SetRange(v, lo, hi)
		}
	case *types.Struct:
		if depth > 2 {
			return
		}
		if v.Sort.Kind != smt.KData {
			return
		}
		for i := 0; i < u.NumFields(); i++ {
			x.typeFacts(s, smt.Sel(v, i), u.Field(i).Type(), depth+1)
		}
	case *types.Array:
		s.assume(smt.Eq(smt.SeqLen(v), smt.IntC(u.Len())))
	}
}

// constTerm converts an ssa.Const.
func (x *Exec) constVal(c *ssa.Const) Val {
	t := c.Type()
	if c.Value == nil {
		return TermVal{x.zeroTerm(t)}
	}
	switch c.Value.Kind() {
	case constant.Bool:
		return TermVal{smt.BoolC(constant.BoolVal(c.Value))}
	case constant.Int:
		bi, ok := new(big.Int).SetString(c.Value.ExactString(), 10)
		if !ok {
			panic("bad int const")
		}
		return TermVal{smt.IntB(bi)}
	case constant.String:
		return TermVal{smt.SeqLitInts([]byte(constant.StringVal(c.Value)))}
	case constant.Float:
		if _, _, ok := IntInfo(t); ok {
			f, _ := constant.Float64Val(c.Value)
			return TermVal{smt.IntC(int64(f))}
		}
		return TermVal{smt.Fresh("floatconst", x.E.SortOf(t))}
	}
	return TermVal{smt.Fresh("const", x.E.SortOf(t))}
}

// ---------- conversion of executor values to terms ----------

func (x *Exec) toTerm(s *State, v Val, t types.Type) *smt.Term {
	switch v := v.(type) {
	case TermVal:
		return v.T
	case BoxedVal:
		inner := x.toTerm(s, v.Inner, v.Type)
		b, facts := x.E.Box(v.Type, inner)
		for _, f := range facts {
			s.assume(f)
		}
		return b
	case FuncVal:
		if len(v.Bindings) == 0 {
			return x.E.FnConst(v.Fn)
		}
		if len(v.Bindings) == 1 && strings.HasSuffix(v.Fn.Name(), "$bound") {
			// method value recv.m: a function of the receiver (spec builtin boundmethod(recv, "m"))
			if rt, ok := v.Bindings[0].(TermVal); ok && rt.T != nil && rt.T.Sort == smt.Ref {
				cl := smt.App("bound$"+sanitizeName(strings.TrimSuffix(v.Fn.String(), "$bound")), smt.Fn, rt.T)
				s.assume(smt.Neq(cl, FnNil))
				return cl
			}
		}
		cl := smt.Fresh("closure", smt.Fn)
		s.assume(smt.Neq(cl, FnNil))
		return cl
	case ListVal:
		var parts []*smt.Term
		for _, el := range v.Elems {
			parts = append(parts, smt.SeqUnit(x.toTerm(s, el, v.Elem)))
		}
		if len(parts) == 0 {
			return smt.SeqEmpty(x.E.SortOf(v.Elem))
		}
		return smt.SeqConcat(parts...)
	case AddrVal:
		a := v.A
		if len(a.Steps) == 0 {
			switch a.Kind {
			case BaseBox:
				return a.Ref
			}
		}
		// pointer into tracked storage escaping as a value: opaque reference
		x.E.Note("escaping interior pointer modelled as opaque fresh reference in %s", x.fn.String())
		return smt.Fresh("ptr", smt.Ref)
	case nil:
		panic("toTerm(nil)")
	}
	panic(fmt.Sprintf("toTerm: unsupported value %T", v))
}

// ---------- load / store ----------

func (x *Exec) applySteps(v *smt.Term, t types.Type, steps []Step) (*smt.Term, types.Type) {
	for _, st := range steps {
		switch st.Kind {
		case StepIndex:
			v = smt.SeqNth(v, st.Index)
			switch u := t.Underlying().(type) {
			case *types.Slice:
				t = u.Elem()
			case *types.Array:
				t = u.Elem()
			default:
				t = types.Typ[types.Uint8]
			}
		case StepField:
			v = smt.Sel(v, st.Field)
			t = t.Underlying().(*types.Struct).Field(st.Field).Type()
		}
	}
	return v, t
}

func (x *Exec) updateSteps(base *smt.Term, t types.Type, steps []Step, nv *smt.Term) *smt.Term {
	if len(steps) == 0 {
		return nv
	}
	st := steps[0]
	switch st.Kind {
	case StepIndex:
		var et types.Type
		switch u := t.Underlying().(type) {
		case *types.Slice:
			et = u.Elem()
		case *types.Array:
			et = u.Elem()
		default:
			et = types.Typ[types.Uint8]
		}
		inner := x.updateSteps(smt.SeqNth(base, st.Index), et, steps[1:], nv)
		return smt.SeqUpdate(base, st.Index, inner)
	case StepField:
		ft := t.Underlying().(*types.Struct).Field(st.Field).Type()
		inner := x.updateSteps(smt.Sel(base, st.Field), ft, steps[1:], nv)
		return smt.SetField(base, st.Field, inner)
	}
	panic("bad step")
}

func (x *Exec) loadBase(s *State, a *Addr) Val {
	switch a.Kind {
	case BaseCell:
		v, ok := s.cells[a.Cell]
		if !ok {
			panic(fmt.Sprintf("load from unset cell %s in %s", a.Cell.Name(), x.fn))
		}
		return v
	case BaseHeapField:
		name, _, ft := x.E.fieldHeap(a.Struct, a.Field)
		t := smt.Select(x.Heap(s, name), a.Ref)
		x.typeFacts(s, t, ft, 0)
		return TermVal{t}
	case BaseGlobal:
		name, _ := x.E.globalHeap(a.Global)
		t := x.Heap(s, name)
		// arrays have their declared length (element facts are left to invariants: the big generated tables
		// would otherwise flood every query of the package initialiser)
		if at, ok := a.Global.Type().(*types.Pointer).Elem().Underlying().(*types.Array); ok && t.Sort.Kind == smt.KSeq && !x.isInit {
			s.assume(smt.Eq(smt.SeqLen(t), smt.IntC(at.Len())))
		}
		return TermVal{t}
	case BaseSlice:
		return TermVal{a.SliceV}
	case BaseBox:
		name, _ := x.E.boxHeap(a.BoxType)
		t := smt.Select(x.Heap(s, name), a.Ref)
		x.typeFacts(s, t, a.BoxType, 0)
		return TermVal{t}
	case BaseGhost:
		return TermVal{x.Heap(s, a.Heap)}
	}
	panic("bad addr base")
}

func (x *Exec) storeBase(s *State, a *Addr, v Val) {
	switch a.Kind {
	case BaseCell:
		s.cells[a.Cell] = v
	case BaseHeapField:
		name, _, ft := x.E.fieldHeap(a.Struct, a.Field)
		s.heap[name] = smt.Store(x.Heap(s, name), a.Ref, x.toTerm(s, v, ft))
		x.wrote[name] = true
	case BaseGlobal:
		name, _ := x.E.globalHeap(a.Global)
		x.Heap(s, name)
		s.heap[name] = x.toTerm(s, v, a.ElemTy)
		x.wrote[name] = true
	case BaseSlice:
		if a.Origin == nil {
			x.unsupported("store through a slice element whose slice has no tracked origin")
			return
		}
		x.E.Note("slice element store in %s modelled as update of the owning location (no other alias assumed)", x.fn.String())
		x.store(s, a.Origin, v)
	case BaseBox:
		name, _ := x.E.boxHeap(a.BoxType)
		s.heap[name] = smt.Store(x.Heap(s, name), a.Ref, x.toTerm(s, v, a.BoxType))
		x.wrote[name] = true
	case BaseGhost:
		x.Heap(s, a.Heap)
		s.heap[a.Heap] = x.toTerm(s, v, nil)
		x.wrote[a.Heap] = true
	}
}

func (x *Exec) load(s *State, a *Addr) Val {
	bv := x.loadBase(s, a)
	if len(a.Steps) == 0 {
		return bv
	}
	// steps into executor-level lists
	if lv, ok := bv.(ListVal); ok {
		st := a.Steps[0]
		if st.Kind == StepIndex && st.Index.IsInt() {
			i := int(st.Index.Int.Int64())
			if i >= 0 && i < len(lv.Elems) {
				el := lv.Elems[i]
				if len(a.Steps) == 1 {
					return el
				}
				t, _ := x.applySteps(x.toTerm(s, el, lv.Elem), lv.Elem, a.Steps[1:])
				return TermVal{t}
			}
		}
		x.unsupported("symbolic index into executor-level list")
		return TermVal{smt.Fresh("unk", x.E.SortOf(a.Type()))}
	}
	t, ty := x.applySteps(x.toTerm(s, bv, a.ElemTy), a.ElemTy, a.Steps)
	x.typeFacts(s, t, ty, 0)
	return TermVal{t}
}

func (x *Exec) store(s *State, a *Addr, v Val) {
	if len(a.Steps) == 0 {
		x.storeBase(s, a, v)
		return
	}
	bv := x.loadBase(s, a)
	if lv, ok := bv.(ListVal); ok {
		st := a.Steps[0]
		if st.Kind == StepIndex && st.Index.IsInt() && len(a.Steps) == 1 {
			i := int(st.Index.Int.Int64())
			if i >= 0 && i < len(lv.Elems) {
				ne := append([]Val{}, lv.Elems...)
				ne[i] = v
				x.storeBase(s, &Addr{Kind: a.Kind, Cell: a.Cell, ElemTy: a.ElemTy}, ListVal{lv.Elem, ne})
				return
			}
		}
		x.unsupported("store into executor-level list with symbolic index")
		return
	}
	base := x.toTerm(s, bv, a.ElemTy)
	nv := x.updateSteps(base, a.ElemTy, a.Steps, x.toTerm(s, v, a.Type()))
	b := *a
	b.Steps = nil
	x.storeBase(s, &b, TermVal{nv})
}

// loadStruct reads all fields of the struct at ref r into a datatype value.
func (x *Exec) loadStruct(s *State, r *smt.Term, st types.Type) *smt.Term {
	u := st.Underlying().(*types.Struct)
	var args []*smt.Term
	for i := 0; i < u.NumFields(); i++ {
		ft := u.Field(i).Type()
		if _, isStruct := ft.Underlying().(*types.Struct); isStruct {
			args = append(args, x.loadStruct(s, x.E.subRef(st, i, r), ft))
			continue
		}
		name, _, _ := x.E.fieldHeap(st, i)
		t := smt.Select(x.Heap(s, name), r)
		x.typeFacts(s, t, ft, 0)
		args = append(args, t)
	}
	if len(args) == 0 {
		args = append(args, smt.True)
	}
	return smt.Ctor(x.E.SortOf(st), args...)
}

func (x *Exec) storeStruct(s *State, r *smt.Term, st types.Type, v *smt.Term) {
	u := st.Underlying().(*types.Struct)
	for i := 0; i < u.NumFields(); i++ {
		ft := u.Field(i).Type()
		if _, isStruct := ft.Underlying().(*types.Struct); isStruct {
			x.storeStruct(s, x.E.subRef(st, i, r), ft, smt.Sel(v, i))
			continue
		}
		name, _, _ := x.E.fieldHeap(st, i)
		s.heap[name] = smt.Store(x.Heap(s, name), r, smt.Sel(v, i))
		x.wrote[name] = true
	}
}

func isStruct(t types.Type) bool {
	_, ok := t.Underlying().(*types.Struct)
	return ok
}
