package vc

import (
	"fmt"
	"go/types"
	"os"
	"path/filepath"
	"sort"
	"strings"

	"govc/spec"

	"golang.org/x/tools/go/ssa"

	"govc/smt"
)

func (e *Engine) dummyExec() *Exec {
	return &Exec{E: e, wrote: map[string]bool{}, entryHeap: map[string]*smt.Term{}, epoch: "0", counters: map[string]int{}}
}

// AxiomTerms evaluates the `axiom` clauses of all contract files (assumptions, reported in the evidence).
func (e *Engine) AxiomTerms() (terms []*smt.Term, srcs []string, err error) {
	x := e.dummyExec()
	for _, ax := range e.Axioms {
		if ax.IsLemma {
			continue
		}
		st := &State{heap: map[string]*smt.Term{}, cells: map[*ssa.Alloc]Val{}, env: map[ssa.Value]Val{}}
		env := &SpecEnv{X: x, S: st, Vars: map[string]SVal{}, Pkg: ax.Pkg, CalleeView: true, Old: map[string]*smt.Term{}}
		v, er := x.evalSafe(env, ax.E)
		if er != nil {
			return nil, nil, fmt.Errorf("%s:%d: axiom: %v", ax.File, ax.Line, er)
		}
		terms = append(terms, withAutoPattern(v.T))
		srcs = append(srcs, ax.Src)
	}
	return
}

// DefFuns returns the recursive spec-function definitions built so far.
func (e *Engine) DefFuns() []*smt.DefFun {
	var names []string
	for n, sf := range e.SpecFuncs {
		if sf.def != nil {
			names = append(names, n)
		}
	}
	sort.Strings(names)
	var out []*smt.DefFun
	for _, n := range names {
		out = append(out, e.SpecFuncs[n].def)
	}
	return out
}

// Defs returns the define-fun-rec texts of all recursive spec functions built so far.
func (e *Engine) Defs() []string {
	var names []string
	for n, sf := range e.SpecFuncs {
		if sf.defText != "" {
			names = append(names, n)
		}
	}
	sort.Strings(names)
	// mutual recursion is not supported; order by dependency = textual mention
	var out []string
	emitted := map[string]bool{}
	var emit func(n string)
	emit = func(n string) {
		if emitted[n] {
			return
		}
		emitted[n] = true
		sf := e.SpecFuncs[n]
		for _, m := range names {
			if m != n && strings.Contains(sf.defText, "sf$"+m+" ") {
				emit(m)
			}
		}
		out = append(out, sf.defText)
	}
	for _, n := range names {
		emit(n)
	}
	return out
}

func hasProp(ps []string, want map[string]bool) bool {
	if len(want) == 0 {
		return true
	}
	for _, p := range ps {
		if want[p] {
			return true
		}
	}
	return false
}

// ContractProps returns every property tag mentioned by a contract.
func ContractProps(c *Contract) []string {
	set := map[string]bool{}
	for _, p := range c.Props {
		set[p] = true
	}
	add := func(ps []string) {
		for _, p := range ps {
			set[p] = true
		}
	}
	for _, cl := range c.Requires {
		add(cl.Props)
	}
	for _, cl := range c.Ensures {
		add(cl.Props)
	}
	for _, l := range c.Loops {
		for _, cl := range l.Invariants {
			add(cl.Props)
		}
	}
	for _, sc := range c.Structural {
		add(sc.Props)
	}
	var out []string
	for p := range set {
		out = append(out, p)
	}
	sort.Strings(out)
	return out
}

// PrintLoops lists loop ordinals with source positions.
func PrintLoops(e *Engine, c *Contract) {
	x := &Exec{E: e, fn: c.Fn, c: c, wrote: map[string]bool{}, entryHeap: map[string]*smt.Term{}, counters: map[string]int{}}
	x.findLoops()
	type row struct {
		ord int
		pos string
		hdr string
	}
	var rows []row
	for h, li := range x.loops {
		pos := ""
		best := int(^uint(0) >> 1)
		for b := range li.body {
			for _, in := range b.Instrs {
				if in.Pos().IsValid() && int(in.Pos()) < best {
					best = int(in.Pos())
					p := e.Fset.Position(in.Pos())
					pos = fmt.Sprintf("%s:%d", shortFile(p.Filename), p.Line)
				}
			}
		}
		rows = append(rows, row{li.ordinal, pos, h.Comment})
	}
	sort.Slice(rows, func(i, j int) bool { return rows[i].ord < rows[j].ord })
	fmt.Printf("%s\n", funcDisplayName(c.Fn))
	for _, r := range rows {
		fmt.Printf("  loop %d  %s  (%s)\n", r.ord, r.pos, r.hdr)
	}
}

// TrustedUsed lists trusted contracts (assumed, not verified).
func (e *Engine) TrustedUsed() []string {
	var out []string
	for _, c := range e.Contracts {
		if c.Trusted && e.usedContracts[c] {
			out = append(out, c.Obj.FullName())
		}
	}
	for _, fc := range e.FieldContracts {
		out = append(out, "field "+fc.Field.Name()+" (function value, assumed contract)")
	}
	sort.Strings(out)
	return out
}

// StructuralObligations: placeholder extended in structural.go

// InitContracts synthesises, for every package that declares `globalinv` clauses, a contract for the package
// initialiser whose postconditions are those invariants.
func (e *Engine) InitContracts() []*Contract {
	byPkg := map[*types.Package][]*GlobalInv{}
	var order []*types.Package
	for _, gi := range e.GlobalInvs {
		if gi.Pkg == nil {
			continue
		}
		if _, ok := byPkg[gi.Pkg]; !ok {
			order = append(order, gi.Pkg)
		}
		byPkg[gi.Pkg] = append(byPkg[gi.Pkg], gi)
	}
	var out []*Contract
	for _, p := range order {
		sp := e.Prog.Package(p)
		if sp == nil {
			continue
		}
		initFn := sp.Func("init")
		if initFn == nil || len(initFn.Blocks) == 0 {
			continue
		}
		fc := &spec.FuncContract{Name: "init", Loops: map[int]*spec.LoopSpec{}, File: byPkg[p][0].File, Line: byPkg[p][0].Line}
		propSet := map[string]bool{}
		for _, gi := range byPkg[p] {
			cl := *gi.Clause
			if cl.Label == "" {
				cl.Label = "globalinv"
			}
			fc.Ensures = append(fc.Ensures, &cl)
			for _, pr := range gi.Props {
				propSet[pr] = true
			}
		}
		for pr := range propSet {
			fc.Props = append(fc.Props, pr)
		}
		sort.Strings(fc.Props)
		out = append(out, &Contract{FuncContract: fc, Fn: initFn, SpecPkg: p, PkgPath: p.Path(), IsInit: true})
	}
	return out
}

// withAutoPattern adds an instantiation pattern to a top-level universally quantified axiom: the smallest
// uninterpreted application that mentions every bound variable (keeps E-matching from looping).
func withAutoPattern(t *smt.Term) *smt.Term {
	if t.Op != "forall" || len(t.Pats) > 0 {
		return t
	}
	var best *smt.Term
	bestSize := 1 << 30
	var size func(u *smt.Term) int
	size = func(u *smt.Term) int {
		n := 1
		for _, a := range u.Args {
			n += size(a)
		}
		return n
	}
	mentionsAll := func(u *smt.Term) bool {
		for _, q := range t.Quant {
			if !mentions(u, map[*smt.Term]bool{q: true}) {
				return false
			}
		}
		return true
	}
	var walk func(u *smt.Term)
	walk = func(u *smt.Term) {
		if u.Op == "app" && mentionsAll(u) {
			if sz := size(u); sz < bestSize {
				best, bestSize = u, sz
			}
		}
		for _, a := range u.Args {
			walk(a)
		}
	}
	walk(t.Args[0])
	if best == nil {
		return t
	}
	return smt.Forall(t.Quant, t.Args[0], []*smt.Term{best})
}

// AxiomSymbols returns the uninterpreted function names an axiom mentions.
func AxiomSymbols(t *smt.Term) map[string]bool {
	out := map[string]bool{}
	seen := map[int]bool{}
	var walk func(u *smt.Term)
	walk = func(u *smt.Term) {
		if seen[u.ID()] {
			return
		}
		seen[u.ID()] = true
		if u.Op == "app" {
			out[u.Name] = true
		}
		if u.Op == "var" && strings.HasPrefix(u.Name, "GL$") {
			out[u.Name] = true
		}
		for _, a := range u.Args {
			walk(a)
		}
	}
	walk(t)
	return out
}

// lemmaInstance evaluates a lemma body with its parameters bound to the given values.
func (x *Exec) lemmaInstance(env *SpecEnv, l *LemmaInfo, args []SVal) *smt.Term {
	ne := *env
	ne.Vars = map[string]SVal{}
	ne.Results = nil
	ne.Bound = map[string]SVal{}
	ne.CalleeView = true
	ne.Pkg = l.Pkg
	for i, p := range l.Params {
		ne.Vars[p.Name] = args[i]
	}
	return x.evalBool(&ne, l.Body)
}

// LemmaObligations: each named lemma is proved once for arbitrary parameter values; with `induction v from lo`
// the induction hypothesis (the lemma for every v' with lo <= v' < v, other parameters fixed) is available.
func (e *Engine) LemmaObligations(want map[string]bool) ([]*Obligation, error) {
	var out []*Obligation
	var names []string
	for n := range e.Lemmas {
		names = append(names, n)
	}
	sort.Strings(names)
	x := e.dummyExec()
	for _, n := range names {
		l := e.Lemmas[n]
		if !hasProp(l.Props, want) {
			continue
		}
		st := &State{heap: map[string]*smt.Term{}, cells: map[*ssa.Alloc]Val{}, env: map[ssa.Value]Val{}}
		env := &SpecEnv{X: x, S: st, Vars: map[string]SVal{}, Pkg: l.Pkg, CalleeView: true, Old: map[string]*smt.Term{}}
		var args []SVal
		indIdx := -1
		for i, p := range l.Params {
			srt, gt, err := e.resolveType(l.Pkg, p.Type)
			if err != nil {
				return nil, fmt.Errorf("%s:%d: lemma %s: %v", l.File, l.Line, n, err)
			}
			args = append(args, SVal{T: smt.Fresh("lem$"+p.Name, srt), GT: gt})
			if p.Name == l.Induct {
				indIdx = i
			}
		}
		goal, err := safeEval(func() *smt.Term { return x.lemmaInstance(env, l, args) })
		if err != nil {
			return nil, fmt.Errorf("%s:%d: lemma %s: %v", l.File, l.Line, n, err)
		}
		var hyps []*smt.Term
		if l.Induct != "" {
			if indIdx < 0 {
				return nil, fmt.Errorf("%s:%d: lemma %s: induction variable %s is not a parameter", l.File, l.Line, n, l.Induct)
			}
			lo := x.eval(env, l.From).T
			v := args[indIdx].T
			bv := smt.Var(smt.FreshName("ih$"+l.Induct), smt.Int)
			ihArgs := append([]SVal{}, args...)
			ihArgs[indIdx] = SVal{T: bv, GT: args[indIdx].GT}
			ihBody, err := safeEval(func() *smt.Term { return x.lemmaInstance(env, l, ihArgs) })
			if err != nil {
				return nil, err
			}
			// well-founded on [lo, oo): the hypothesis is only available for lo <= v' < v, and only when v >= lo
			ih := smt.Forall([]*smt.Term{bv}, smt.Implies(smt.And(smt.Le(lo, bv), smt.Lt(bv, v)), ihBody))
			hyps = append(hyps, smt.Implies(smt.Le(lo, v), ih))
			// ground instance at v-1, the one almost every proof needs
			prevArgs := append([]SVal{}, args...)
			prevArgs[indIdx] = SVal{T: smt.Sub(v, smt.IntC(1)), GT: args[indIdx].GT}
			if pb, err := safeEval(func() *smt.Term { return x.lemmaInstance(env, l, prevArgs) }); err == nil {
				hyps = append(hyps, smt.Implies(smt.Le(lo, smt.Sub(v, smt.IntC(1))), pb))
			}
		}
		// explicit instances: l2(args) with args over this lemma's parameters
		for _, ua := range l.UsingApps {
			call, ok := ua.(*spec.Call)
			if !ok {
				return nil, fmt.Errorf("%s:%d: lemma %s: using item must be a lemma application", l.File, l.Line, n)
			}
			id, ok := call.Fun.(*spec.Ident)
			if !ok || e.Lemmas[id.Name] == nil || len(call.Args) != len(e.Lemmas[id.Name].Params) {
				return nil, fmt.Errorf("%s:%d: lemma %s: using: unknown lemma or wrong arity in %s", l.File, l.Line, n, ua)
			}
			ul := e.Lemmas[id.Name]
			penv := *env
			penv.Vars = map[string]SVal{}
			for i, p := range l.Params {
				penv.Vars[p.Name] = args[i]
			}
			var uargs []SVal
			var evalErr error
			for _, a := range call.Args {
				a := a
				_, err := safeEval(func() *smt.Term { v := x.eval(&penv, a); uargs = append(uargs, v); return v.T })
				if err != nil {
					evalErr = err
				}
			}
			if evalErr != nil {
				return nil, fmt.Errorf("%s:%d: lemma %s: using %s: %v", l.File, l.Line, n, ua, evalErr)
			}
			ub, err := safeEval(func() *smt.Term { return x.lemmaInstance(env, ul, uargs) })
			if err != nil {
				return nil, err
			}
			hyps = append(hyps, ub)
		}
		for _, un := range l.Using {
			ul := e.Lemmas[un]
			if ul == nil {
				return nil, fmt.Errorf("%s:%d: lemma %s uses unknown lemma %s", l.File, l.Line, n, un)
			}
			var bvs []*smt.Term
			var uargs []SVal
			for _, p := range ul.Params {
				srt, gt, err := e.resolveType(ul.Pkg, p.Type)
				if err != nil {
					return nil, err
				}
				bv := smt.Var(smt.FreshName("u$"+p.Name), srt)
				bvs = append(bvs, bv)
				uargs = append(uargs, SVal{T: bv, GT: gt})
			}
			ub, err := safeEval(func() *smt.Term { return x.lemmaInstance(env, ul, uargs) })
			if err != nil {
				return nil, err
			}
			hyps = append(hyps, smt.Forall(bvs, ub))
		}
		out = append(out, &Obligation{Name: "lemma#" + n, Func: "lemma " + n, Kind: "lemma", Props: l.Props, Hyps: hyps, Goal: goal, Src: l.Src})
	}
	return out, nil
}

func safeEval(f func() *smt.Term) (t *smt.Term, err error) {
	defer func() {
		if r := recover(); r != nil {
			if os, ok := r.(outsideSubset); ok {
				err = fmt.Errorf("%s", string(os))
				return
			}
			panic(r)
		}
	}()
	return f(), nil
}

// AttachReplays generates, for every failed obligation that came with a model, Go tests that re-run the real
// function on the model's inputs (written next to the SMT files; the check driver injects them with -overlay).
func (e *Engine) AttachReplays(results []*OblResult, dir string) {
	os.MkdirAll(dir, 0o755)
	n := 0
	for _, r := range results {
		o := r.FailedObl
		if r.Status != "failed" || o == nil || o.Replay == nil || o.Contract == nil || r.Model == "" {
			continue
		}
		vals := ParseGetValue(r.Model)
		keys := sortedKeys(o.ModelTerms)
		if len(vals) != len(keys) {
			r.ReplayNote = fmt.Sprintf("model has %d values for %d requested terms", len(vals), len(keys))
			continue
		}
		values := map[string]*sexpr{}
		for i, k := range keys {
			values[k] = vals[i]
		}
		fn := o.Contract.Fn
		if fn == nil || !fn.Pos().IsValid() {
			continue
		}
		file := e.Fset.Position(fn.Pos()).Filename
		rel, err := filepath.Rel(e.RepoDir, filepath.Dir(file))
		if err != nil {
			continue
		}
		full, ok, note := e.GenReplayTest(o.Contract, o.Replay, o.Kind, r.Name, o.Clause, values)
		if !ok {
			r.ReplayNote = note
			continue
		}
		lite, _, _ := e.GenReplayTest(o.Contract, o.Replay, "safety", r.Name, nil, values)
		n++
		fp := filepath.Join(dir, fmt.Sprintf("replay_%d_test.go", n))
		lp := filepath.Join(dir, fmt.Sprintf("replay_%d_lite_test.go", n))
		os.WriteFile(fp, []byte(full), 0o644)
		os.WriteFile(lp, []byte(lite), 0o644)
		r.ReplayTest, r.ReplayTestLite, r.ReplayPkg, r.ReplayNote = fp, lp, rel, note
	}
}
