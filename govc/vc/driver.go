package vc

import (
	"fmt"
	"sort"
	"strings"

	"golang.org/x/tools/go/ssa"

	"govc/smt"
)

func (e *Engine) dummyExec() *Exec {
	return &Exec{E: e, wrote: map[string]bool{}, entryHeap: map[string]*smt.Term{}, epoch: "ax", counters: map[string]int{}}
}

// AxiomTerms evaluates the `axiom` clauses of all contract files (assumptions, reported in the evidence).
func (e *Engine) AxiomTerms() (terms []*smt.Term, srcs []string, err error) {
	x := e.dummyExec()
	for _, ax := range e.Axioms {
		if ax.IsLemma {
			continue
		}
		st := &State{heap: map[string]*smt.Term{}, cells: map[*ssa.Alloc]Val{}, env: map[ssa.Value]Val{}}
		env := &SpecEnv{X: x, S: st, Vars: map[string]SVal{}, Pkg: ax.Pkg, CalleeView: true, Old: map[string]*smt.Term{}}
		v, er := x.evalSafe(env, ax.E)
		if er != nil {
			return nil, nil, fmt.Errorf("%s:%d: axiom: %v", ax.File, ax.Line, er)
		}
		terms = append(terms, v.T)
		srcs = append(srcs, ax.Src)
	}
	return
}

// DefFuns returns the recursive spec-function definitions built so far.
func (e *Engine) DefFuns() []*smt.DefFun {
	var names []string
	for n, sf := range e.SpecFuncs {
		if sf.def != nil {
			names = append(names, n)
		}
	}
	sort.Strings(names)
	var out []*smt.DefFun
	for _, n := range names {
		out = append(out, e.SpecFuncs[n].def)
	}
	return out
}

// Defs returns the define-fun-rec texts of all recursive spec functions built so far.
func (e *Engine) Defs() []string {
	var names []string
	for n, sf := range e.SpecFuncs {
		if sf.defText != "" {
			names = append(names, n)
		}
	}
	sort.Strings(names)
	// mutual recursion is not supported; order by dependency = textual mention
	var out []string
	emitted := map[string]bool{}
	var emit func(n string)
	emit = func(n string) {
		if emitted[n] {
			return
		}
		emitted[n] = true
		sf := e.SpecFuncs[n]
		for _, m := range names {
			if m != n && strings.Contains(sf.defText, "sf$"+m+" ") {
				emit(m)
			}
		}
		out = append(out, sf.defText)
	}
	for _, n := range names {
		emit(n)
	}
	return out
}

func hasProp(ps []string, want map[string]bool) bool {
	if len(want) == 0 {
		return true
	}
	for _, p := range ps {
		if want[p] {
			return true
		}
	}
	return false
}

// ContractProps returns every property tag mentioned by a contract.
func ContractProps(c *Contract) []string {
	set := map[string]bool{}
	for _, p := range c.Props {
		set[p] = true
	}
	add := func(ps []string) {
		for _, p := range ps {
			set[p] = true
		}
	}
	for _, cl := range c.Requires {
		add(cl.Props)
	}
	for _, cl := range c.Ensures {
		add(cl.Props)
	}
	for _, l := range c.Loops {
		for _, cl := range l.Invariants {
			add(cl.Props)
		}
	}
	for _, sc := range c.Structural {
		add(sc.Props)
	}
	var out []string
	for p := range set {
		out = append(out, p)
	}
	sort.Strings(out)
	return out
}

// PrintLoops lists loop ordinals with source positions.
func PrintLoops(e *Engine, c *Contract) {
	x := &Exec{E: e, fn: c.Fn, c: c, wrote: map[string]bool{}, entryHeap: map[string]*smt.Term{}, counters: map[string]int{}}
	x.findLoops()
	type row struct {
		ord int
		pos string
		hdr string
	}
	var rows []row
	for h, li := range x.loops {
		pos := ""
		best := int(^uint(0) >> 1)
		for b := range li.body {
			for _, in := range b.Instrs {
				if in.Pos().IsValid() && int(in.Pos()) < best {
					best = int(in.Pos())
					p := e.Fset.Position(in.Pos())
					pos = fmt.Sprintf("%s:%d", shortFile(p.Filename), p.Line)
				}
			}
		}
		rows = append(rows, row{li.ordinal, pos, h.Comment})
	}
	sort.Slice(rows, func(i, j int) bool { return rows[i].ord < rows[j].ord })
	fmt.Printf("%s\n", funcDisplayName(c.Fn))
	for _, r := range rows {
		fmt.Printf("  loop %d  %s  (%s)\n", r.ord, r.pos, r.hdr)
	}
}

// TrustedUsed lists trusted contracts (assumed, not verified).
func (e *Engine) TrustedUsed() []string {
	var out []string
	for _, c := range e.Contracts {
		if c.Trusted && e.usedContracts[c] {
			out = append(out, c.Obj.FullName())
		}
	}
	for _, fc := range e.FieldContracts {
		out = append(out, "field "+fc.Field.Name()+" (function value, assumed contract)")
	}
	sort.Strings(out)
	return out
}

// StructuralObligations: placeholder extended in structural.go
