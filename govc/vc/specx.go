package vc

import (
	"fmt"
	"go/types"
	"math/big"
	"strings"

	"golang.org/x/tools/go/ssa"

	"govc/smt"
	"govc/spec"
)

// SVal: a spec-level value: term + (optional) Go type for field resolution.
type SVal struct {
	T  *smt.Term
	GT types.Type
}

type SpecEnv struct {
	X          *Exec
	S          *State
	Old        map[string]*smt.Term // heap snapshot for old()
	UseOld     bool                 // evaluate heap reads in Old
	Vars       map[string]SVal
	Results    map[string]SVal
	Bound      map[string]SVal
	PostParams map[string]*smt.Term
	Pkg        *types.Package
	Fn         *ssa.Function
	CalleeView bool            // evaluating a callee's contract at a call site: locals of the caller are not visible
	LoopHeader *ssa.BasicBlock // set while evaluating a loop invariant
	AllocPre   *smt.Term       // allocation set at the time of the call (callee contracts)
	DefHeap    *defHeap        // set while building the definition of a recursive spec function
	macroDepth int
}

// defHeap: heap entries read by a recursive spec function become hidden parameters of its definition.
type defHeap struct {
	names []string
	vars  map[string]*smt.Term
}

func (env *SpecEnv) heap(name string) *smt.Term {
	x := env.X
	if env.DefHeap != nil {
		if v, ok := env.DefHeap.vars[name]; ok {
			return v
		}
		srt, ok := x.E.HeapSorts[name]
		if !ok {
			panic("unknown heap " + name)
		}
		v := smt.Var("hp$"+name, srt)
		env.DefHeap.vars[name] = v
		env.DefHeap.names = append(env.DefHeap.names, name)
		return v
	}
	if env.UseOld {
		if t, ok := env.Old[name]; ok {
			return t
		}
		// not yet touched at snapshot time: same as initial symbol
		if t, ok := x.entryHeap[name]; ok && env.isEntryOld() {
			return t
		}
		t := x.Heap(env.S, name) // creates initial symbol if absent
		if _, ok := env.Old[name]; !ok {
			// the snapshot did not contain it, so it was untouched at snapshot time
			if it, ok := x.entryHeap[name]; ok {
				return it
			}
		}
		return t
	}
	return x.Heap(env.S, name)
}

func (env *SpecEnv) isEntryOld() bool { return true }

type specErr string

// termExpr lets an already evaluated value be passed where a spec expression is expected.
type termExpr struct{ v SVal }

func (t *termExpr) String() string { return "<term>" }

func (x *Exec) evalBool(env *SpecEnv, e spec.Expr) *smt.Term {
	v := x.eval(env, e)
	if v.T.Sort != smt.Bool {
		panic(outsideSubset(fmt.Sprintf("spec expression %s is not boolean", e)))
	}
	return v.T
}

func (x *Exec) evalSafe(env *SpecEnv, e spec.Expr) (v SVal, err error) {
	defer func() {
		if r := recover(); r != nil {
			if os, ok := r.(outsideSubset); ok {
				err = fmt.Errorf("%s", string(os))
				return
			}
			panic(r)
		}
	}()
	return x.eval(env, e), nil
}

func specFail(format string, args ...any) {
	panic(outsideSubset("spec: " + fmt.Sprintf(format, args...)))
}

func derefStruct(t types.Type) (types.Type, bool) {
	if t == nil {
		return nil, false
	}
	if p, ok := t.Underlying().(*types.Pointer); ok {
		if isStruct(p.Elem()) {
			return p.Elem(), true
		}
	}
	return nil, false
}

func (x *Exec) localByName(name string) *ssa.Alloc {
	base, ord := name, 1
	tsel := ""
	if i := strings.Index(name, "#"); i >= 0 {
		base = name[:i]
		if n, err := fmt.Sscanf(name[i+1:], "%d", &ord); n != 1 || err != nil {
			ord, tsel = 1, name[i+1:] // f#SettingsFrame: the local f whose type mentions SettingsFrame
		}
	}
	if strings.HasPrefix(base, "$") {
		base = base[1:]
	}
	n := 0
	for _, b := range x.fn.Blocks {
		for _, in := range b.Instrs {
			if a, ok := in.(*ssa.Alloc); ok && a.Comment == base {
				if tsel != "" && !strings.Contains(a.Type().String(), tsel) {
					continue
				}
				n++
				if n == ord {
					return a
				}
			}
		}
	}
	return nil
}

func (x *Exec) eval(env *SpecEnv, e spec.Expr) SVal {
	E := x.E
	switch e := e.(type) {
	case *termExpr:
		return e.v
	case *spec.IntLit:
		bi, ok := new(big.Int).SetString(strings.ReplaceAll(e.Val, "_", ""), 0)
		if !ok {
			specFail("bad integer %s", e.Val)
		}
		return SVal{T: smt.IntB(bi)}
	case *spec.BoolLit:
		return SVal{T: smt.BoolC(e.Val)}
	case *spec.StrLit:
		return SVal{T: smt.SeqLitInts([]byte(e.Val)), GT: types.Typ[types.String]}
	case *spec.SeqLit:
		s, gt, err := E.resolveType(env.Pkg, e.Elem)
		if err != nil {
			specFail("%v", err)
		}
		var parts []*smt.Term
		for _, el := range e.Elems {
			parts = append(parts, smt.SeqUnit(x.eval(env, el).T))
		}
		var g types.Type
		if gt != nil {
			g = types.NewSlice(gt)
		}
		if len(parts) == 0 {
			return SVal{T: smt.SeqEmpty(s), GT: g}
		}
		return SVal{T: smt.SeqConcat(parts...), GT: g}
	case *spec.Ident:
		return x.evalIdent(env, e.Name)
	case *spec.Unary:
		v := x.eval(env, e.X)
		switch e.Op {
		case "!":
			return SVal{T: smt.Not(v.T)}
		case "-":
			return SVal{T: smt.Neg(v.T)}
		}
	case *spec.Binary:
		return x.evalBinary(env, e)
	case *spec.Sel:
		return x.evalSel(env, e)
	case *spec.Index:
		b := x.eval(env, e.X)
		i := x.eval(env, e.I)
		switch b.T.Sort.Kind {
		case smt.KSeq:
			var et types.Type
			if b.GT != nil {
				switch u := b.GT.Underlying().(type) {
				case *types.Slice:
					et = u.Elem()
				case *types.Array:
					et = u.Elem()
				case *types.Basic:
					et = types.Typ[types.Uint8]
				}
			}
			r := smt.SeqNth(b.T, i.T)
			if et != nil {
				x.typeFacts(env.S, r, et, 0)
			}
			return SVal{T: r, GT: et}
		case smt.KArr:
			return SVal{T: smt.Select(b.T, i.T)}
		case smt.KUnint:
			// map object: m[k]
			if b.GT != nil {
				if mt, ok := b.GT.Underlying().(*types.Map); ok {
					_, vh, _, _ := E.mapHeaps(b.GT)
					return SVal{T: smt.Select(smt.Select(env.heap(vh), b.T), i.T), GT: mt.Elem()}
				}
			}
		}
		specFail("cannot index %s", e.X)
	case *spec.Slice:
		b := x.eval(env, e.X)
		if b.T.Sort.Kind != smt.KSeq {
			specFail("cannot slice %s", e.X)
		}
		lo := smt.IntC(0)
		hi := smt.SeqLen(b.T)
		if e.Lo != nil {
			lo = x.eval(env, e.Lo).T
		}
		if e.Hi != nil {
			hi = x.eval(env, e.Hi).T
		}
		return SVal{T: smt.SeqExtract(b.T, lo, smt.Sub(hi, lo)), GT: b.GT}
	case *spec.Quant:
		nb := map[string]SVal{}
		for k, v := range env.Bound {
			nb[k] = v
		}
		var vars []*smt.Term
		for _, p := range e.Vars {
			s, gt, err := E.resolveType(env.Pkg, p.Type)
			if err != nil {
				specFail("%v", err)
			}
			bv := smt.Var(smt.FreshName("q$"+p.Name), s)
			vars = append(vars, bv)
			nb[p.Name] = SVal{T: bv, GT: gt}
		}
		ne := *env
		ne.Bound = nb
		body := x.evalBool(&ne, e.Body)
		// machine-typed bound variables range over their type
		var guards []*smt.Term
		for i, p := range e.Vars {
			if gt := nb[p.Name].GT; gt != nil {
				if bits, signed, ok := IntInfo(gt); ok && p.Type.Name != "int" {
					lo, hi := IntRange(bits, signed)
					guards = append(guards, smt.Le(smt.IntB(lo), vars[i]), smt.Le(vars[i], smt.IntB(hi)))
				}
			}
		}
		if e.Kind == "forall" {
			return SVal{T: smt.Forall(vars, smt.Implies(smt.And(guards...), body))}
		}
		return SVal{T: smt.Exists(vars, smt.And(append(guards, body)...))}
	case *spec.TypeAssert:
		v := x.eval(env, e.X)
		_, gt, err := E.resolveType(env.Pkg, e.T)
		if err != nil {
			specFail("%v", err)
		}
		if v.T.Sort != smt.Iface {
			specFail("type test on non-interface %s", e.X)
		}
		return SVal{T: smt.Eq(TypeOf(v.T), smt.IntC(int64(E.TypeTag(gt))))}
	case *spec.Call:
		return x.evalCall(env, e)
	}
	specFail("unsupported expression %s", e)
	return SVal{}
}

func (x *Exec) evalIdent(env *SpecEnv, name string) SVal {
	if v, ok := env.Bound[name]; ok {
		return v
	}
	if v, ok := env.Results[name]; ok {
		return v
	}
	if v, ok := env.Vars[name]; ok {
		return v
	}
	if (name == "visited" || name == "$visited") && env.LoopHeader != nil && !env.CalleeView {
		// the set of keys already produced by the map range whose loop invariant is being evaluated
		for _, in := range env.LoopHeader.Instrs {
			if nx, ok := in.(*ssa.Next); ok {
				if rg, ok := nx.Iter.(*ssa.Range); ok {
					if mt, ok := rg.X.Type().Underlying().(*types.Map); ok {
						return SVal{T: env.heap(x.iterHeap(rg, mt))}
					}
				}
			}
		}
	}
	switch name {
	case "nil":
		return SVal{T: nil}
	case "MaxInt32":
		return SVal{T: smt.IntC(1<<31 - 1)}
	}
	if gv, ok := x.E.GhostV[name]; ok {
		return SVal{T: env.heap(gv.Heap), GT: gv.GoType}
	}
	// local variable of the function under verification (invariants)
	if !env.CalleeView {
		a := x.localByName(name)
		if (name == "rangeindex" || name == "$rangeindex") && env.LoopHeader != nil {
			// the hidden index of the range loop whose invariant is being evaluated
			for _, in := range env.LoopHeader.Instrs {
				if u, ok := in.(*ssa.UnOp); ok {
					if al, ok := u.X.(*ssa.Alloc); ok && al.Comment == "rangeindex" {
						a = al
						break
					}
				}
			}
		}
		if a != nil {
			et := a.Type().(*types.Pointer).Elem()
			if isStruct(et) {
				if v, ok := env.S.env[a]; ok {
					return SVal{T: v.(TermVal).T, GT: a.Type()}
				}
				return SVal{T: smt.Fresh("unalloc$"+name, smt.Ref), GT: a.Type()}
			}
			cv, ok := env.S.cells[a]
			if !ok {
				// not allocated on this path: the clause must hold for any value
				x.E.Note("contract of %s mentions local %s on a path where it is not yet in scope: treated as an arbitrary value", x.fn.String(), name)
				return SVal{T: x.freshOf(env.S, et, "unalloc$"+name), GT: et}
			}
			return SVal{T: x.toTerm(env.S, cv, et), GT: et}
		}
	}
	// package-level constants and variables
	if env.Pkg != nil {
		if o := env.Pkg.Scope().Lookup(name); o != nil {
			return x.evalObject(env, o)
		}
	}
	specFail("unknown identifier %s", name)
	return SVal{}
}

func (x *Exec) evalObject(env *SpecEnv, o types.Object) SVal {
	switch o := o.(type) {
	case *types.Const:
		c := ssa.NewConst(o.Val(), o.Type())
		v := x.constVal(c)
		return SVal{T: v.(TermVal).T, GT: o.Type()}
	case *types.Var:
		sp := x.E.Prog.Package(o.Pkg())
		if sp != nil {
			if g, ok := sp.Members[o.Name()].(*ssa.Global); ok {
				name, _ := x.E.globalHeap(g)
				return SVal{T: env.heap(name), GT: o.Type()}
			}
		}
	case *types.Func:
		if f := x.E.Prog.FuncValue(o); f != nil {
			return SVal{T: x.E.FnConst(f), GT: o.Type()}
		}
	}
	specFail("cannot use object %s in a spec", o.Name())
	return SVal{}
}

func unify(a, b *SVal) {
	// nil literal adopts the other's sort
	if a.T == nil && b.T != nil {
		a.T = nilOf(b.T.Sort)
	}
	if b.T == nil && a.T != nil {
		b.T = nilOf(a.T.Sort)
	}
}

func nilOf(s *smt.Sort) *smt.Term {
	switch {
	case s == smt.Ref:
		return RefNil
	case s == smt.Iface:
		return IfaceNil
	case s == smt.Fn:
		return FnNil
	case s.Kind == smt.KSeq:
		return smt.SeqEmpty(s.Args[0])
	}
	specFail("nil used with sort %s", s)
	return nil
}

func (x *Exec) evalBinary(env *SpecEnv, e *spec.Binary) SVal {
	switch e.Op {
	case "&&":
		return SVal{T: smt.And(x.evalBool(env, e.X), x.evalBool(env, e.Y))}
	case "||":
		return SVal{T: smt.Or(x.evalBool(env, e.X), x.evalBool(env, e.Y))}
	case "==>":
		return SVal{T: smt.Implies(x.evalBool(env, e.X), x.evalBool(env, e.Y))}
	case "<==>":
		return SVal{T: smt.Iff(x.evalBool(env, e.X), x.evalBool(env, e.Y))}
	}
	a, b := x.eval(env, e.X), x.eval(env, e.Y)
	unify(&a, &b)
	if a.T == nil || b.T == nil {
		specFail("cannot type nil in %s", e)
	}
	switch e.Op {
	case "==", "!=":
		if a.T.Sort != b.T.Sort {
			specFail("comparison of different sorts in %s: %s vs %s", e, a.T.Sort, b.T.Sort)
		}
		r := smt.Eq(a.T, b.T)
		if e.Op == "!=" {
			r = smt.Not(r)
		}
		return SVal{T: r}
	case "<":
		return SVal{T: smt.Lt(a.T, b.T)}
	case "<=":
		return SVal{T: smt.Le(a.T, b.T)}
	case ">":
		return SVal{T: smt.Gt(a.T, b.T)}
	case ">=":
		return SVal{T: smt.Ge(a.T, b.T)}
	case "+":
		if a.T.Sort.Kind == smt.KSeq {
			return SVal{T: smt.SeqConcat(a.T, b.T), GT: a.GT}
		}
		return SVal{T: smt.Add(a.T, b.T)}
	case "++":
		return SVal{T: smt.SeqConcat(a.T, b.T), GT: a.GT}
	case "-":
		return SVal{T: smt.Sub(a.T, b.T)}
	case "*":
		return SVal{T: smt.Mul(a.T, b.T)}
	case "/":
		return SVal{T: smt.Div(a.T, b.T)}
	case "%":
		return SVal{T: smt.Mod(a.T, b.T)}
	}
	specFail("unsupported operator %s", e.Op)
	return SVal{}
}

func (x *Exec) evalSel(env *SpecEnv, e *spec.Sel) SVal {
	E := x.E
	// package-qualified identifier
	if id, ok := e.X.(*spec.Ident); ok {
		if _, isVar := env.Vars[id.Name]; !isVar {
			if _, isB := env.Bound[id.Name]; !isB {
				if _, isR := env.Results[id.Name]; !isR && (env.CalleeView || x.localByName(id.Name) == nil) {
					if p := E.findPkgByName(env.Pkg, id.Name); p != nil && (env.Pkg == nil || env.Pkg.Scope().Lookup(id.Name) == nil) {
						if o := p.Scope().Lookup(e.Name); o != nil {
							return x.evalObject(env, o)
						}
					}
				}
			}
		}
	}
	b := x.eval(env, e.X)
	if b.T == nil {
		specFail("selector on nil")
	}
	// ghost field?
	if gf, ok := E.GhostF[e.Name]; ok && b.T.Sort == gf.KeySort {
		return SVal{T: smt.Select(env.heap(gf.Heap), b.T), GT: gf.GoType}
	}
	if b.GT == nil {
		specFail("selector %s on value without Go type", e)
	}
	// pointer to struct
	if st, ok := derefStruct(b.GT); ok {
		return x.selField(env, b.T, st, e.Name, true)
	}
	if isStruct(b.GT) {
		if b.T.Sort == smt.Ref {
			// embedded struct reached through a sub-reference
			return x.selField(env, b.T, b.GT, e.Name, true)
		}
		return x.selField(env, b.T, b.GT, e.Name, false)
	}
	specFail("cannot select %s from %s", e.Name, b.GT)
	return SVal{}
}

func (x *Exec) selField(env *SpecEnv, base *smt.Term, st types.Type, name string, viaRef bool) SVal {
	u := st.Underlying().(*types.Struct)
	for i := 0; i < u.NumFields(); i++ {
		if u.Field(i).Name() != name {
			continue
		}
		ft := u.Field(i).Type()
		if viaRef {
			if isStruct(ft) {
				return SVal{T: x.E.subRef(st, i, base), GT: ft}
			}
			h, _, _ := x.E.fieldHeap(st, i)
			t := smt.Select(env.heap(h), base)
			x.typeFacts(env.S, t, ft, 0)
			return SVal{T: t, GT: ft}
		}
		return SVal{T: smt.Sel(base, i), GT: ft}
	}
	// promoted through embedded fields
	for i := 0; i < u.NumFields(); i++ {
		if u.Field(i).Embedded() {
			ft := u.Field(i).Type()
			inner := ft
			if p, ok := ft.Underlying().(*types.Pointer); ok {
				inner = p.Elem()
			}
			if isStruct(inner) {
				if has(inner, name) {
					sub := x.selField(env, base, st, u.Field(i).Name(), viaRef)
					if _, isPtr := ft.Underlying().(*types.Pointer); isPtr || viaRef {
						return x.selField(env, sub.T, inner, name, true)
					}
					return x.selField(env, sub.T, inner, name, false)
				}
			}
		}
	}
	specFail("no field %s in %s", name, st)
	return SVal{}
}

func has(st types.Type, name string) bool {
	u := st.Underlying().(*types.Struct)
	for i := 0; i < u.NumFields(); i++ {
		if u.Field(i).Name() == name {
			return true
		}
	}
	return false
}

func (x *Exec) evalCall(env *SpecEnv, e *spec.Call) SVal {
	E := x.E
	id, ok := e.Fun.(*spec.Ident)
	if !ok {
		// method-style ghost field call: x.f(...) not supported
		specFail("unsupported call %s", e)
	}
	arg := func(i int) SVal { return x.eval(env, e.Args[i]) }
	switch id.Name {
	case "old":
		ne := *env
		ne.UseOld = true
		return x.eval(&ne, e.Args[0])
	case "post":
		pid, ok := e.Args[0].(*spec.Ident)
		if !ok {
			specFail("post() expects a parameter name")
		}
		if t, ok := env.PostParams[pid.Name]; ok {
			v := env.Vars[pid.Name]
			return SVal{T: t, GT: v.GT}
		}
		// not assigned: same as entry
		return x.evalIdent(env, pid.Name)
	case "len":
		v := arg(0)
		if v.T.Sort == smt.Ref && v.GT != nil {
			if _, isMap := v.GT.Underlying().(*types.Map); isMap {
				r, facts := E.mapLen(v.GT, smt.Select(env.heap(E.mapDomHeap(v.GT)), v.T))
				if env.S != nil {
					for _, f := range facts {
						env.S.assume(f)
					}
				}
				return SVal{T: smt.Ite(smt.Eq(v.T, RefNil), smt.IntC(0), r)}
			}
		}
		if v.T.Sort.Kind != smt.KSeq {
			specFail("len of non-sequence %s", e.Args[0])
		}
		return SVal{T: smt.SeqLen(v.T)}
	case "min":
		return SVal{T: smt.Min(arg(0).T, arg(1).T)}
	case "max":
		return SVal{T: smt.Max(arg(0).T, arg(1).T)}
	case "ite":
		a, b := arg(1), arg(2)
		unify(&a, &b)
		return SVal{T: smt.Ite(x.evalBool(env, e.Args[0]), a.T, b.T), GT: a.GT}
	case "hasPrefix":
		return SVal{T: smt.SeqPrefixOf(arg(1).T, arg(0).T)}
	case "hasSuffix":
		return SVal{T: smt.SeqSuffixOf(arg(1).T, arg(0).T)}
	case "contains":
		return SVal{T: smt.SeqContains(arg(0).T, arg(1).T)}
	case "dec":
		return SVal{T: FmtDec(arg(0).T), GT: types.Typ[types.String]}
	case "fmtd":
		// fmtd("02", v): fmt %02d
		sl := e.Args[0].(*spec.StrLit)
		return SVal{T: smt.App("fmt$d$"+sanitizeFlags(sl.Val), smt.Seq(smt.Int), arg(1).T), GT: types.Typ[types.String]}
	case "fmtx":
		sl := e.Args[0].(*spec.StrLit)
		return SVal{T: smt.App("fmt$x$"+sanitizeFlags(sl.Val), smt.Seq(smt.Int), arg(1).T), GT: types.Typ[types.String]}
	case "mk":
		// mk(T, v1, ..., vn): the struct value of type T with the given field values (in declaration order)
		tn := e.Args[0].String()
		srt, gt, err := E.resolveType(env.Pkg, &spec.Type{Kind: "name", Name: tn})
		if err != nil || gt == nil || !isStruct(gt) {
			specFail("mk: %s is not a struct type", tn)
		}
		u := gt.Underlying().(*types.Struct)
		if len(e.Args)-1 != u.NumFields() {
			specFail("mk(%s): %d values for %d fields", tn, len(e.Args)-1, u.NumFields())
		}
		var fargs []*smt.Term
		for i := 1; i < len(e.Args); i++ {
			fargs = append(fargs, arg(i).T)
		}
		return SVal{T: smt.Ctor(srt, fargs...), GT: gt}
	case "fmtxs":
		// fmtxs("", b): fmt %x of a byte slice / string
		sl := e.Args[0].(*spec.StrLit)
		return SVal{T: smt.App("fmt$xs$"+sanitizeFlags(sl.Val), smt.Seq(smt.Int), arg(1).T), GT: types.Typ[types.String]}
	case "utf8enc":
		return SVal{T: smt.App("utf8enc", smt.Seq(smt.Int), arg(0).T), GT: types.Typ[types.String]}
	case "typeof":
		return SVal{T: TypeOf(arg(0).T)}
	case "unit":
		v := arg(0)
		return SVal{T: smt.SeqUnit(v.T)}
	case "isnil":
		v := arg(0)
		return SVal{T: smt.Eq(v.T, nilOf(v.T.Sort))}
	case "allocated":
		return SVal{T: smt.Select(x.entryAlloc(), arg(0).T)}
	case "pow2":
		// pow2(n) for 0 <= n <= 64 (0 otherwise)
		n := arg(0).T
		r := smt.IntC(0)
		for k := 64; k >= 0; k-- {
			r = smt.Ite(smt.Eq(n, smt.IntC(int64(k))), smt.IntB(pow2(k)), r)
		}
		return SVal{T: r}
	case "spawned":
		// spawned(f): how many `go f(...)` statements this activation has executed (ghost counter kept by the executor)
		name := e.Args[0].String()
		h := "GV$spawn$" + name
		E.HeapSorts[h] = smt.Int
		return SVal{T: env.heap(h)}
	case "live":
		// live(r), in a callee's postcondition: r exists when the call returns (it is added to the allocation set by
		// the caller, so objects allocated later are different from it). As a formula it is just true.
		return SVal{T: smt.True}
	case "fresh":
		// fresh(r): r was not allocated at function entry (at a call site: not allocated when the call was made)
		al := x.entryAlloc()
		if env.AllocPre != nil {
			al = env.AllocPre
		}
		return SVal{T: smt.And(smt.Not(smt.Select(al, arg(0).T)), smt.Neq(arg(0).T, RefNil), smt.Eq(RootOf(arg(0).T), arg(0).T))}
	case "unbox":
		// unbox(T, x) -- first arg is a type name
		tn, ok := e.Args[0].(*spec.Ident)
		var gt types.Type
		var err error
		if ok {
			_, gt, err = E.resolveType(env.Pkg, &spec.Type{Kind: "name", Name: tn.Name})
		} else if sl, ok := e.Args[0].(*spec.Sel); ok {
			_, gt, err = E.resolveType(env.Pkg, &spec.Type{Kind: "name", Name: sl.String()})
		} else if un, ok := e.Args[0].(*spec.Unary); ok && un.Op == "*" {
			_ = un
		}
		if err != nil || gt == nil {
			specFail("unbox: bad type %s", e.Args[0])
		}
		return SVal{T: E.Unbox(gt, arg(1).T), GT: gt}
	case "unboxptr":
		tn := e.Args[0].String()
		_, gt, err := E.resolveType(env.Pkg, &spec.Type{Kind: "name", Name: tn})
		if err != nil {
			specFail("unboxptr: %v", err)
		}
		pt := types.NewPointer(gt)
		return SVal{T: E.Unbox(pt, arg(1).T), GT: pt}
	case "isptr":
		// isptr(T, x): dynamic type of interface x is *T
		tn := e.Args[0].String()
		_, gt, err := E.resolveType(env.Pkg, &spec.Type{Kind: "name", Name: tn})
		if err != nil {
			specFail("isptr: %v", err)
		}
		return SVal{T: smt.Eq(TypeOf(arg(1).T), smt.IntC(int64(E.TypeTag(types.NewPointer(gt)))))}
	case "boundmethod":
		// boundmethod(recv, "m"): the method value recv.m (the term the engine gives the closure `recv.m`)
		sl, ok := e.Args[1].(*spec.StrLit)
		if !ok {
			specFail("boundmethod: second argument must be a method name string")
		}
		rv := arg(0)
		ms := E.Prog.MethodSets.MethodSet(rv.GT)
		sel := ms.Lookup(env.Pkg, sl.Val)
		if sel == nil {
			for i := 0; i < ms.Len(); i++ {
				if ms.At(i).Obj().Name() == sl.Val {
					sel = ms.At(i)
				}
			}
		}
		if sel == nil {
			specFail("boundmethod: %s has no method %s", rv.GT, sl.Val)
		}
		mf := E.Prog.MethodValue(sel)
		if mf == nil {
			specFail("boundmethod: no function for %s", sl.Val)
		}
		return SVal{T: smt.App("bound$"+sanitizeName(mf.String()), smt.Fn, rv.T), GT: sel.Type()}
	case "fcall":
		// fcall("Field", fn, args...): result of calling the function value held in struct field Field
		sl, ok := e.Args[0].(*spec.StrLit)
		if !ok {
			specFail("fcall: first argument must be a field name string")
		}
		var fc *FieldContract
		for v, c := range E.FieldContracts {
			if v.Name() == sl.Val {
				fc = c
			}
		}
		if fc == nil || !fc.Pure {
			specFail("fcall: no pure field contract for %s", sl.Val)
		}
		var as []*smt.Term
		for i := 1; i < len(e.Args); i++ {
			as = append(as, arg(i).T)
		}
		rt := fc.Sig.Results().At(0).Type()
		return SVal{T: smt.App(fmt.Sprintf("fieldfn$%s$%d", fc.Field.Name(), 0), E.SortOf(rt), as...), GT: rt}
	case "deref":
		v := arg(0)
		pt, ok := v.GT.Underlying().(*types.Pointer)
		if !ok {
			specFail("deref of non-pointer")
		}
		h, _ := E.boxHeap(pt.Elem())
		t := smt.Select(env.heap(h), v.T)
		x.typeFacts(env.S, t, pt.Elem(), 0)
		return SVal{T: t, GT: pt.Elem()}
	case "val":
		// val(r): the struct value stored at (interior) reference r
		v := arg(0)
		st := v.GT
		if p, ok := derefStruct(v.GT); ok {
			st = p
		}
		if st == nil || !isStruct(st) || v.T.Sort != smt.Ref {
			specFail("val() expects a reference to a struct")
		}
		hs := &State{heap: map[string]*smt.Term{}, cells: env.S.cells, env: env.S.env}
		u := st.Underlying().(*types.Struct)
		var fargs []*smt.Term
		for i := 0; i < u.NumFields(); i++ {
			fv := x.selField(env, v.T, st, u.Field(i).Name(), true)
			if isStruct(u.Field(i).Type()) {
				sub := x.eval(env, &spec.Call{Fun: &spec.Ident{Name: "val"}, Args: []spec.Expr{&termExpr{fv}}})
				fargs = append(fargs, sub.T)
			} else {
				fargs = append(fargs, fv.T)
			}
		}
		_ = hs
		if len(fargs) == 0 {
			fargs = append(fargs, smt.True)
		}
		return SVal{T: smt.Ctor(E.SortOf(st), fargs...), GT: st}
	case "mapHas":
		m, k := arg(0), arg(1)
		if m.GT == nil {
			specFail("mapHas on untyped value")
		}
		dh, _, _, _ := E.mapHeaps(m.GT)
		return SVal{T: smt.Select(smt.Select(env.heap(dh), m.T), k.T)}
	case "mapGet":
		m, k := arg(0), arg(1)
		if m.GT == nil {
			specFail("mapGet on untyped value")
		}
		_, vh, _, _ := E.mapHeaps(m.GT)
		return SVal{T: smt.Select(smt.Select(env.heap(vh), m.T), k.T), GT: m.GT.Underlying().(*types.Map).Elem()}
	}
	// ghost field in call form: gf(x)
	if gf, ok := E.GhostF[id.Name]; ok && len(e.Args) == 1 {
		b := arg(0)
		if b.T.Sort != gf.KeySort {
			specFail("ghost field %s applied to %s", gf.Name, b.T.Sort)
		}
		return SVal{T: smt.Select(env.heap(gf.Heap), b.T), GT: gf.GoType}
	}
	sf, ok := E.SpecFuncs[id.Name]
	if !ok {
		specFail("unknown spec function %s", id.Name)
	}
	if len(e.Args) != len(sf.Params) {
		specFail("spec function %s: wrong number of arguments", sf.Name)
	}
	var args []SVal
	for i := range e.Args {
		a := arg(i)
		if a.T == nil {
			a.T = nilOf(sf.ParamSort[i])
		}
		if a.T.Sort != sf.ParamSort[i] {
			specFail("spec function %s: argument %d has sort %s, want %s", sf.Name, i, a.T.Sort, sf.ParamSort[i])
		}
		if a.GT == nil {
			a.GT = sf.ParamGo[i]
		}
		args = append(args, a)
	}
	if sf.Body == nil || sf.Recursive {
		var ts []*smt.Term
		for _, a := range args {
			ts = append(ts, a.T)
		}
		name := "sf$" + sf.Name
		if sf.Recursive {
			if sf.building {
				if sf.discovering {
					name = "sfdisc$" + sf.Name // first pass: only finds out which heap entries the body reads
				}
			} else {
				x.E.ensureDef(x, sf)
			}
			if !sf.discovering {
				for _, h := range sf.hidden {
					ts = append(ts, env.heap(h))
				}
			}
		}
		return SVal{T: smt.App(name, sf.ResSort, ts...), GT: sf.ResGo}
	}
	// macro expansion in the current state
	if env.macroDepth > 20 {
		specFail("spec function expansion too deep (%s)", sf.Name)
	}
	ne := *env
	ne.macroDepth++
	ne.Bound = map[string]SVal{}
	for k, v := range env.Bound {
		ne.Bound[k] = v
	}
	ne.Vars = map[string]SVal{}
	ne.Results = nil
	ne.CalleeView = true
	ne.Pkg = sf.Pkg
	if ne.Pkg == nil {
		ne.Pkg = env.Pkg
	}
	for i, p := range sf.Params {
		ne.Vars[p.Name] = args[i]
	}
	r := x.eval(&ne, sf.Body)
	if r.GT == nil {
		r.GT = sf.ResGo
	}
	return r
}

// ensureDef builds the definition of a recursive spec function. Heap entries the body reads (fields, ghost
// fields, maps) become hidden parameters: the function is a function of its arguments and of those entries, and
// every use passes the entries of the state it is evaluated in.
func (e *Engine) ensureDef(x *Exec, sf *SpecFuncInfo) {
	if sf.def != nil || sf.building {
		return
	}
	sf.building = true
	defer func() { sf.building = false }()
	vars := map[string]SVal{}
	var ps []*smt.Term
	for i, p := range sf.Params {
		bv := smt.Var("a$"+p.Name, sf.ParamSort[i])
		vars[p.Name] = SVal{T: bv, GT: sf.ParamGo[i]}
		ps = append(ps, bv)
	}
	mk := func() (*SpecEnv, *defHeap) {
		dh := &defHeap{vars: map[string]*smt.Term{}}
		st := &State{heap: map[string]*smt.Term{}, cells: map[*ssa.Alloc]Val{}, env: map[ssa.Value]Val{}}
		return &SpecEnv{X: x, S: st, Vars: vars, Pkg: sf.Pkg, CalleeView: true, Old: map[string]*smt.Term{}, DefHeap: dh}, dh
	}
	// pass 1: discover the heap entries read
	sf.discovering = true
	env, dh := mk()
	func() {
		defer func() { sf.discovering = false }()
		x.eval(env, sf.Body)
	}()
	sf.hidden = append([]string{}, dh.names...)
	// pass 2: the real body, recursive calls now pass the hidden parameters along
	env, dh2 := mk()
	for _, h := range sf.hidden {
		env.heap(h)
	}
	body := x.eval(env, sf.Body)
	if len(dh2.names) != len(sf.hidden) {
		specFail("recursive spec function %s: unstable set of heap entries", sf.Name)
	}
	for _, h := range sf.hidden {
		ps = append(ps, dh2.vars[h])
	}
	sf.defText = "(defined)"
	sf.def = &smt.DefFun{Name: "sf$" + sf.Name, Params: ps, Res: sf.ResSort, Body: body.T}
}

// ---------- assigns targets ----------

type Target struct {
	Heap string
	Key  *smt.Term // nil: whole entry
}

// resolveTargets evaluates an assigns target expression to heap locations.
func (x *Exec) resolveTargets(env *SpecEnv, a spec.Expr) (ts []Target, all bool) {
	E := x.E
	switch a := a.(type) {
	case *spec.Ident:
		if a.Name == "everything" || a.Name == "unrestricted" {
			return nil, true
		}
		if gv, ok := E.GhostV[a.Name]; ok {
			return []Target{{Heap: gv.Heap}}, false
		}
		if env.Pkg != nil {
			if o, ok := env.Pkg.Scope().Lookup(a.Name).(*types.Var); ok {
				sp := E.Prog.Package(o.Pkg())
				if g, ok := sp.Members[o.Name()].(*ssa.Global); ok {
					n, _ := E.globalHeap(g)
					return []Target{{Heap: n}}, false
				}
			}
		}
	case *spec.Sel:
		if a.Name == "all" {
			// x.all: every field of the object x
			b := x.eval(env, a.X)
			st, ok := derefStruct(b.GT)
			if !ok && isStruct(b.GT) {
				st, ok = b.GT, true
			}
			if ok {
				return x.allFieldTargets(b.T, st), false
			}
		}
		// Type.field / pkg.Type.field / iface.ghost : that field of every object
		tname := ""
		if id, ok := a.X.(*spec.Ident); ok {
			if _, isVar := env.Vars[id.Name]; !isVar {
				tname = id.Name
			}
		} else if sl, ok := a.X.(*spec.Sel); ok {
			if id, ok := sl.X.(*spec.Ident); ok {
				if _, isVar := env.Vars[id.Name]; !isVar && E.findPkgByName(env.Pkg, id.Name) != nil {
					tname = id.Name + "." + sl.Name
				}
			}
		}
		if tname == "iface" {
			if gf, ok := E.GhostF[a.Name]; ok {
				return []Target{{Heap: gf.Heap}}, false
			}
		}
		if tname != "" {
			{
				if t, err := E.lookupNamed(env.Pkg, tname); err == nil && isStruct(t) {
					u := t.Underlying().(*types.Struct)
					for i := 0; i < u.NumFields(); i++ {
						if u.Field(i).Name() == a.Name {
							h, _, _ := E.fieldHeap(t, i)
							return []Target{{Heap: h}}, false
						}
					}
					if gf, ok := E.GhostF[a.Name]; ok {
						return []Target{{Heap: gf.Heap}}, false
					}
				}
			}
		}
		b := x.eval(env, a.X)
		if gf, ok := E.GhostF[a.Name]; ok && b.T.Sort == gf.KeySort {
			return []Target{{Heap: gf.Heap, Key: b.T}}, false
		}
		st, ok := derefStruct(b.GT)
		if !ok && isStruct(b.GT) && b.T.Sort == smt.Ref {
			st, ok = b.GT, true
		}
		if ok {
			u := st.Underlying().(*types.Struct)
			for i := 0; i < u.NumFields(); i++ {
				if u.Field(i).Name() == a.Name {
					ft := u.Field(i).Type()
					if isStruct(ft) {
						return x.allFieldTargets(E.subRef(st, i, b.T), ft), false
					}
					h, _, _ := E.fieldHeap(st, i)
					return []Target{{Heap: h, Key: b.T}}, false
				}
			}
		}
	case *spec.Call:
		if id, ok := a.Fun.(*spec.Ident); ok {
			if gf, ok := E.GhostF[id.Name]; ok && len(a.Args) == 1 {
				b := x.eval(env, a.Args[0])
				return []Target{{Heap: gf.Heap, Key: b.T}}, false
			}
			if id.Name == "post" {
				return nil, false // handled separately
			}
			if id.Name == "deref" && len(a.Args) == 1 {
				b := x.eval(env, a.Args[0])
				if pt, ok := b.GT.Underlying().(*types.Pointer); ok && !isStruct(pt.Elem()) {
					h, _ := E.boxHeap(pt.Elem())
					return []Target{{Heap: h, Key: b.T}}, false
				}
			}
			if id.Name == "mapOf" && len(a.Args) == 1 {
				b := x.eval(env, a.Args[0])
				d, v, _, _ := E.mapHeaps(b.GT)
				return []Target{{Heap: d, Key: b.T}, {Heap: v, Key: b.T}}, false
			}
		}
	}
	specFail("unsupported assigns target %s", a)
	return nil, false
}

func (x *Exec) allFieldTargets(r *smt.Term, st types.Type) []Target {
	var ts []Target
	u := st.Underlying().(*types.Struct)
	for i := 0; i < u.NumFields(); i++ {
		ft := u.Field(i).Type()
		if isStruct(ft) {
			ts = append(ts, x.allFieldTargets(x.E.subRef(st, i, r), ft)...)
			continue
		}
		h, _, _ := x.E.fieldHeap(st, i)
		ts = append(ts, Target{Heap: h, Key: r})
	}
	for _, gf := range x.E.GhostF {
		if gf.Owner != nil && types.Identical(gf.Owner, st) {
			ts = append(ts, Target{Heap: gf.Heap, Key: r})
		}
	}
	return ts
}

// havocTarget havocs a target, resolving it in env's state.
func (x *Exec) havocTarget(env *SpecEnv, a spec.Expr, tag string) {
	x.havocTargetIn(env.S, env, a, tag)
}

// havocTargetIn havocs in state s the locations denoted by a (evaluated in env).
func (x *Exec) havocTargetIn(s *State, env *SpecEnv, a spec.Expr, tag string) {
	ts, all := x.resolveTargets(env, a)
	if all {
		x.havocAllHeap(s, tag)
		return
	}
	for _, t := range ts {
		srt := x.E.HeapSorts[t.Heap]
		cur := x.Heap(s, t.Heap)
		if t.Key == nil || srt.Kind != smt.KArr {
			s.heap[t.Heap] = smt.Fresh(t.Heap+"$"+tag, srt)
		} else {
			s.heap[t.Heap] = smt.Store(cur, t.Key, smt.Fresh(t.Heap+"$"+tag, srt.Args[1]))
		}
		x.wrote[t.Heap] = true
	}
}

// contractHeaps lists the locations a contract's assigns clause may touch at a call site.
// With st == nil the result is a static over-approximation (whole heap entries). With a state, parameters
// whose argument values are already defined (outside the loop being cut) are bound to their real terms, so
// targets that only depend on them are returned keyed; targets depending on loop-defined arguments are whole.
func (x *Exec) contractHeaps(c *Contract, call *ssa.CallCommon, cur *State, li *loopInfo) (targets []Target, all bool) {
	st := &State{heap: map[string]*smt.Term{}, cells: map[*ssa.Alloc]Val{}, env: map[ssa.Value]Val{}}
	if cur != nil {
		st = cur.clone()
	}
	vars := map[string]SVal{}
	dummies := map[*smt.Term]bool{}
	var argVals []ssa.Value
	if call != nil {
		argVals = callArgs(call)
	}
	for i, p := range c.Params {
		pt := p.Type()
		if call != nil && call.IsInvoke() && i == 0 {
			pt = call.Value.Type()
		}
		var t *smt.Term
		if cur != nil && i < len(argVals) {
			if v, ok := cur.env[argVals[i]]; ok && !x.definedInLoop(argVals[i], li) {
				if tv, ok := v.(TermVal); ok {
					t = tv.T
				}
			} else if cst, ok := argVals[i].(*ssa.Const); ok {
				if tv, ok := x.constVal(cst).(TermVal); ok {
					t = tv.T
				}
			} else if li != nil {
				// a load, inside the loop, of a local the loop never assigns (typically the receiver)
				deps := map[string]bool{}
				if ht, ok := x.headerTerm(cur, li, argVals[i], deps, 0); ok && len(deps) == 0 && ht.Sort == x.E.SortOf(pt) {
					t = ht
				}
			}
		}
		if t == nil {
			t = smt.Fresh("dummy", x.E.SortOf(pt))
			dummies[t] = true
		}
		vars[c.ParamNm[i]] = SVal{T: t, GT: pt}
	}
	env := &SpecEnv{X: x, S: st, Vars: vars, Pkg: c.SpecPkg, CalleeView: true, Old: map[string]*smt.Term{}}
	for _, a := range c.Assigns {
		func() {
			defer func() {
				if r := recover(); r != nil {
					if _, ok := r.(outsideSubset); ok {
						all = true
						return
					}
					panic(r)
				}
			}()
			if cl, ok := a.(*spec.Call); ok {
				if id, ok := cl.Fun.(*spec.Ident); ok && id.Name == "post" {
					return
				}
			}
			ts, al := x.resolveTargets(env, a)
			if al {
				all = true
			}
			for _, t := range ts {
				if t.Key != nil && (cur == nil || mentions(t.Key, dummies) || (li != nil && !li.keyCheckLater && x.dependsOnLoopState(t.Key, li))) {
					t.Key = nil
				}
				targets = append(targets, t)
			}
		}()
	}
	return
}

func (x *Exec) definedInLoop(v ssa.Value, li *loopInfo) bool {
	if li == nil {
		return false
	}
	if in, ok := v.(ssa.Instruction); ok && in.Block() != nil {
		return li.body[in.Block()]
	}
	return false
}

// dependsOnLoopState: a key that reads heap entries the loop may change is not stable across iterations.
func (x *Exec) dependsOnLoopState(k *smt.Term, li *loopInfo) bool {
	found := false
	seen := map[int]bool{}
	var walk func(t *smt.Term)
	walk = func(t *smt.Term) {
		if found || seen[t.ID()] {
			return
		}
		seen[t.ID()] = true
		if t.Op == "select" || t.Op == "store" {
			found = true // conservative: any heap read in the key
			return
		}
		for _, a := range t.Args {
			walk(a)
		}
	}
	walk(k)
	return found
}

func mentions(t *smt.Term, set map[*smt.Term]bool) bool {
	seen := map[int]bool{}
	var walk func(t *smt.Term) bool
	walk = func(t *smt.Term) bool {
		if set[t] {
			return true
		}
		if seen[t.ID()] {
			return false
		}
		seen[t.ID()] = true
		for _, a := range t.Args {
			if walk(a) {
				return true
			}
		}
		return false
	}
	return walk(t)
}
