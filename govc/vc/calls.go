package vc

import (
	"fmt"
	"go/constant"
	"go/types"
	"strconv"
	"strings"

	"golang.org/x/tools/go/ssa"

	"govc/smt"
	"govc/spec"
)

type calleeKind int

const (
	calleeUnknown calleeKind = iota
	calleeContract
	calleeInline
	calleeExternal
	calleeIntrinsic
	calleeDynamic
)

func (e *Engine) inModule(p *types.Package) bool {
	return p != nil && strings.HasPrefix(p.Path(), "github.com/wi1dcard/fingerproxy")
}

// calleeContract classifies a call.
func (x *Exec) calleeContract(call *ssa.CallCommon) (*Contract, calleeKind) {
	if call.IsInvoke() {
		m := call.Method
		if c, ok := x.E.Contracts[m]; ok {
			return c, calleeContract
		}
		// a contract on the same-named method of an embedded/other interface with identical signature
		return nil, calleeDynamic
	}
	switch v := call.Value.(type) {
	case *ssa.Function:
		if v.Pkg != nil && v.Pkg.Pkg.Path() == "fmt" && (v.Name() == "Sprintf" || v.Name() == "Errorf") {
			if v.Name() == "Sprintf" {
				return nil, calleeIntrinsic
			}
		}
		obj, _ := v.Object().(*types.Func)
		if obj == nil && v.Origin() != nil {
			obj, _ = v.Origin().Object().(*types.Func)
		}
		if obj != nil {
			if c, ok := x.E.Contracts[obj]; ok {
				if c.Inline {
					return c, calleeInline
				}
				return c, calleeContract
			}
		}
		if v.Parent() != nil {
			return nil, calleeInline // function literal
		}
		if v.Synthetic != "" && len(v.Blocks) > 0 && (strings.HasPrefix(v.Synthetic, "wrapper for") || strings.HasPrefix(v.Synthetic, "bound method wrapper")) {
			return nil, calleeInline // promoted-method / bound-method wrapper: its body is the call of the real method
		}
		if strings.HasPrefix(v.Name(), "init#") && v.Pkg == x.fn.Pkg {
			return nil, calleeInline // declared init() function of the package being initialised
		}
		if v.Name() == "init" && v.Pkg != nil && v.Pkg != x.fn.Pkg {
			// initialiser of an imported package: cannot reach this package's variables (imports are acyclic)
			return nil, calleeExternal
		}
		if v.Pkg == nil || !x.E.inModule(v.Pkg.Pkg) {
			return nil, calleeExternal
		}
		return nil, calleeUnknown
	case *ssa.MakeClosure:
		return nil, calleeInline
	case *ssa.Builtin:
		return nil, calleeIntrinsic
	}
	return nil, calleeDynamic
}

// event records an abstract event (call of an un-modelled effect) in the ghost event counters.
func (x *Exec) event(s *State, kind string, call *ssa.CallCommon) {
	s.trace = append(s.trace, kind)
}

func (x *Exec) chanEvent(s *State, kind string, ch ssa.Value, v ssa.Value) {
	s.trace = append(s.trace, kind)
}

func (x *Exec) execCall(s *State, in *ssa.Call, call *ssa.CallCommon) bool {
	var args []Val
	if call.IsInvoke() {
		args = append(args, x.val(s, call.Value))
	}
	for _, a := range call.Args {
		args = append(args, x.val(s, a))
	}
	var fnv Val
	if !call.IsInvoke() {
		fnv = x.val(s, call.Value)
	}
	res, ok := x.doCall(s, call, fnv, args, in)
	if !ok {
		return false
	}
	if in != nil {
		s.env[in] = res
	}
	return true
}

func (x *Exec) execDeferred(s *State, d deferred) bool {
	args := d.args
	if d.call.IsInvoke() {
		args = append([]Val{d.fn}, args...)
	}
	x.curInstr = d.inst
	_, ok := x.doCall(s, d.call, d.fn, args, nil)
	return ok
}

func resultVal(sig *types.Signature, vals []Val) Val {
	switch len(vals) {
	case 0:
		return TupleVal{}
	case 1:
		return vals[0]
	}
	return TupleVal{vals}
}

// doCall performs a call. in may be nil (deferred call).
func (x *Exec) doCall(s *State, call *ssa.CallCommon, fnv Val, args []Val, in *ssa.Call) (Val, bool) {
	// heap entries that are write-restricted (`writers` declarations) survive calls that cannot reach a writer;
	// calls through interfaces / function values are assumed not to re-enter the writers (they are unexported)
	x.havocKeep = x.E.preservedAcross(staticFn(call))
	defer func() { x.havocKeep = nil }()
	sig := call.Signature()
	if b, ok := call.Value.(*ssa.Builtin); ok && !call.IsInvoke() {
		return x.builtin(s, b, call, args)
	}
	c, kind := x.calleeContract(call)
	// statically unknown callee value that turned out to be a known function at run time (closure in a local)
	if kind == calleeDynamic && !call.IsInvoke() {
		if fv, ok := fnv.(FuncVal); ok && fv.Fn != nil {
			if obj, _ := fv.Fn.Object().(*types.Func); obj != nil {
				if cc, ok := x.E.Contracts[obj]; ok {
					c, kind = cc, calleeContract
					if cc.Inline {
						kind = calleeInline
					}
				}
			}
			if kind == calleeDynamic && fv.Fn.Parent() != nil {
				kind = calleeInline
			}
		}
		if kind == calleeDynamic && x.c != nil {
			// a function-typed parameter declared `callback`: no modelled effect
			if u, ok := call.Value.(*ssa.UnOp); ok {
				if al, ok := u.X.(*ssa.Alloc); ok {
					for _, cb := range x.c.Callbacks {
						if al.Comment == cb {
							x.E.Note("calls of callback parameter %s in %s are assumed to have no effect on modelled state", cb, x.fn.String())
							return x.freshResults(s, sig, cb), true
						}
					}
				}
			}
		}
		if kind == calleeDynamic {
			// function-typed struct field with a field contract
			if fc := x.fieldContract(call.Value); fc != nil {
				res, ok := x.applyFieldContract(s, fc, call, fnv, args)
				if ok && fc.Pure {
					x.knownFuncFacts(s, call, fnv, args, res)
				}
				return res, ok
			}
		}
		if kind == calleeDynamic {
			if res, ok, handled := x.dispatchKnownFuncs(s, call, fnv, args); handled {
				return res, ok
			}
		}
	}
	switch kind {
	case calleeIntrinsic:
		return x.sprintf(s, call, args)
	case calleeContract:
		return x.applyContract(s, c, call, args)
	case calleeInline:
		var fn *ssa.Function
		var bindings []Val
		switch v := fnv.(type) {
		case FuncVal:
			fn, bindings = v.Fn, v.Bindings
		}
		if fn == nil {
			fn = staticFn(call)
		}
		if fn == nil || len(fn.Blocks) == 0 {
			x.unsupported("cannot inline call")
			return nil, false
		}
		return x.inlineCall(s, fn, bindings, args)
	case calleeExternal:
		fn := call.Value.(*ssa.Function)
		x.E.Note("external call %s has no contract: results unconstrained; assumed to modify only objects passed by pointer", fn.String())
		x.havocArgsPointees(s, call, args)
		return x.freshResults(s, sig, fn.Name()), true
	case calleeDynamic:
		if !call.IsInvoke() {
			if nt, ok := call.Value.Type().(*types.Named); ok && nt.Obj().Pkg() != nil && nt.Obj().Pkg().Path() == "context" && nt.Obj().Name() == "CancelFunc" {
				x.E.Note("calling a context.CancelFunc is assumed to have no effect on modelled state")
				x.event(s, "cancel", call)
				return TupleVal{}, true
			}
		}
		name := "dynamic"
		if call.IsInvoke() {
			name = call.Method.FullName()
		}
		x.E.Note("dynamic call %s in %s has no contract: results unconstrained, all heap state havocked", name, x.fn.String())
		x.havocAllHeap(s, "dyn")
		return x.freshResults(s, sig, "dyn"), true
	default:
		fn := call.Value.(*ssa.Function)
		x.E.Note("call to %s (no contract) in %s: results unconstrained, all heap state havocked", fn.String(), x.fn.String())
		x.havocAllHeap(s, "call")
		return x.freshResults(s, sig, fn.Name()), true
	}
}

func (x *Exec) freshResults(s *State, sig *types.Signature, hint string) Val {
	var vals []Val
	for i := 0; i < sig.Results().Len(); i++ {
		rt := sig.Results().At(i).Type()
		t := x.freshOf(s, rt, "r$"+hint)
		if t.Sort == smt.Ref {
			// unknown provenance: may be new or old
		}
		vals = append(vals, TermVal{t})
	}
	return resultVal(sig, vals)
}

func (x *Exec) havocArgsPointees(s *State, call *ssa.CallCommon, args []Val) {
	vals := callArgs(call)
	for i, a := range args {
		switch a := a.(type) {
		case AddrVal:
			if a.A.Kind == BaseCell && len(a.A.Steps) == 0 {
				s.cells[a.A.Cell] = TermVal{x.freshOf(s, a.A.ElemTy, "hv$"+a.A.Cell.Comment)}
			}
		case TermVal:
			if i < len(vals) {
				if pt, ok := vals[i].Type().Underlying().(*types.Pointer); ok && isStruct(pt.Elem()) && x.E.inModuleType(pt.Elem()) {
					x.havocStructAt(s, a.T, pt.Elem())
				}
			}
		}
	}
}

func (e *Engine) inModuleType(t types.Type) bool {
	if n, ok := t.(*types.Named); ok {
		return e.inModule(n.Obj().Pkg())
	}
	return false
}

func (x *Exec) havocStructAt(s *State, r *smt.Term, st types.Type) {
	u := st.Underlying().(*types.Struct)
	for i := 0; i < u.NumFields(); i++ {
		ft := u.Field(i).Type()
		if isStruct(ft) {
			x.havocStructAt(s, x.E.subRef(st, i, r), ft)
			continue
		}
		name, srt, _ := x.E.fieldHeap(st, i)
		s.heap[name] = smt.Store(x.Heap(s, name), r, smt.Fresh("hv", srt.Args[1]))
		x.wrote[name] = true
	}
}

// ---------- builtins ----------

func (x *Exec) builtin(s *State, b *ssa.Builtin, call *ssa.CallCommon, args []Val) (Val, bool) {
	switch b.Name() {
	case "len", "cap":
		at := call.Args[0].Type()
		switch u := at.Underlying().(type) {
		case *types.Map:
			x.E.Note("len(map) is an uninterpreted function of the key set, known to be 0 exactly for the empty set")
			m := x.toTerm(s, args[0], at)
			r, facts := x.E.mapLen(at, smt.Select(x.Heap(s, x.E.mapDomHeap(at)), m))
			for _, f := range facts {
				s.assume(f)
			}
			return TermVal{smt.Ite(smt.Eq(m, RefNil), smt.IntC(0), r)}, true
		case *types.Chan:
			r := smt.Fresh("chanlen", smt.Int)
			s.assume(smt.Le(smt.IntC(0), r))
			return TermVal{r}, true
		case *types.Pointer:
			return TermVal{smt.IntC(u.Elem().Underlying().(*types.Array).Len())}, true
		case *types.Array:
			return TermVal{smt.IntC(u.Len())}, true
		}
		if lv, ok := args[0].(ListVal); ok {
			return TermVal{smt.IntC(int64(len(lv.Elems)))}, true
		}
		t := x.toTerm(s, args[0], at)
		if b.Name() == "cap" {
			x.E.Note("cap() is modelled as an unconstrained value >= len in %s", x.fn.String())
			c := smt.Fresh("cap", smt.Int)
			s.assume(smt.Le(smt.SeqLen(t), c))
			return TermVal{c}, true
		}
		return TermVal{smt.SeqLen(t)}, true
	case "append":
		st := call.Args[0].Type()
		a := x.toTerm(s, args[0], st)
		bt := x.toTerm(s, args[1], call.Args[1].Type())
		// append(X[lo:hi], vs...): when hi+len(vs) <= len(X) the capacity certainly suffices and the elements
		// X[hi:hi+len(vs)] are overwritten in place (the `append(buf[:0], ...)` idiom); otherwise whether the tail of
		// X is overwritten depends on the capacity, which is not modelled: the tail becomes unknown.
		if sl, ok := call.Args[0].(*ssa.Slice); ok && sl.High != nil {
			if _, isSlice := sl.X.Type().Underlying().(*types.Slice); isSlice {
				if o := x.sliceOrigin(s, sl.X); o != nil {
					base := x.term(s, sl.X)
					hi := x.term(s, sl.High)
					n := smt.SeqLen(bt)
					end := smt.Add(hi, n)
					inPlace := smt.SeqConcat(smt.SeqExtract(base, smt.IntC(0), hi), bt, smt.SeqExtract(base, end, smt.Sub(smt.SeqLen(base), end)))
					tail := smt.Fresh("aptail", base.Sort)
					s.assume(smt.Eq(smt.SeqLen(tail), smt.Sub(smt.SeqLen(base), hi)))
					unknown := smt.SeqConcat(smt.SeqExtract(base, smt.IntC(0), hi), tail)
					x.writeBackSlice(s, sl.X, o, smt.Ite(smt.Le(end, smt.SeqLen(base)), inPlace, unknown))
				}
			}
		}
		return TermVal{smt.SeqConcat(a, bt)}, true
	case "copy":
		dst := x.toTerm(s, args[0], call.Args[0].Type())
		src := x.toTerm(s, args[1], call.Args[1].Type())
		n := smt.Min(smt.SeqLen(dst), smt.SeqLen(src))
		nd := smt.SeqConcat(smt.SeqExtract(src, smt.IntC(0), n), smt.SeqExtract(dst, n, smt.Sub(smt.SeqLen(dst), n)))
		// write back to where dst lives
		o := x.sliceOrigin(s, call.Args[0])
		if o == nil {
			x.unsupported("copy into a slice with no tracked origin")
			return TermVal{n}, true
		}
		x.writeBackSlice(s, call.Args[0], o, nd)
		return TermVal{n}, true
	case "delete":
		m := x.toTerm(s, args[0], call.Args[0].Type())
		d, _, _, _ := x.E.mapHeaps(call.Args[0].Type())
		k := x.toTerm(s, args[1], call.Args[1].Type())
		s.heap[d] = smt.Store(x.Heap(s, d), m, smt.Store(smt.Select(x.Heap(s, d), m), k, smt.False))
		x.wrote[d] = true
		return TupleVal{}, true
	case "min", "max":
		r := x.toTerm(s, args[0], call.Args[0].Type())
		for i := 1; i < len(args); i++ {
			o := x.toTerm(s, args[i], call.Args[i].Type())
			if b.Name() == "min" {
				r = smt.Min(r, o)
			} else {
				r = smt.Max(r, o)
			}
		}
		return TermVal{r}, true
	case "recover":
		return TermVal{smt.Fresh("recovered", smt.Iface)}, true
	case "close":
		x.event(s, "close", call)
		return TupleVal{}, true
	case "print", "println":
		return TupleVal{}, true
	case "ssa:wrapnilchk":
		return args[0], true
	case "ssa:deferstack":
		return TermVal{smt.Fresh("deferstack", smt.Ref)}, true
	}
	x.unsupported("builtin %s", b.Name())
	return nil, false
}

// sliceOrigin finds the storage location that holds (the backing array of) an SSA slice value.
func (x *Exec) sliceOrigin(s *State, v ssa.Value) *Addr {
	if o, ok := s.origin[v]; ok {
		return o
	}
	if sl, ok := v.(*ssa.Slice); ok {
		return x.sliceOrigin(s, sl.X)
	}
	if cv, ok := v.(*ssa.Convert); ok {
		return x.sliceOrigin(s, cv.X)
	}
	return nil
}

// writeBackSlice stores new contents for slice value v (which may be a sub-slice of what lives at o).
func (x *Exec) writeBackSlice(s *State, v ssa.Value, o *Addr, nd *smt.Term) {
	x.E.Note("writes through slice values in %s are applied to the owning location only (no other alias assumed)", x.fn.String())
	if sl, ok := v.(*ssa.Slice); ok {
		if _, isPtr := sl.X.Type().Underlying().(*types.Pointer); !isPtr || true {
			// v = base[lo:hi]: rebuild base
			var base *smt.Term
			if _, isPtr := sl.X.Type().Underlying().(*types.Pointer); isPtr {
				base = x.toTerm(s, x.load(s, o), o.Type())
			} else {
				base = x.term(s, sl.X)
			}
			lo := smt.IntC(0)
			if sl.Low != nil {
				lo = x.term(s, sl.Low)
			}
			hi := smt.Add(lo, smt.SeqLen(nd))
			full := smt.SeqConcat(smt.SeqExtract(base, smt.IntC(0), lo), nd, smt.SeqExtract(base, hi, smt.Sub(smt.SeqLen(base), hi)))
			if _, isPtr := sl.X.Type().Underlying().(*types.Pointer); isPtr {
				x.store(s, o, TermVal{full})
				return
			}
			x.writeBackSlice(s, sl.X, o, full)
			return
		}
	}
	x.store(s, o, TermVal{nd})
}

// ---------- fmt.Sprintf ----------

func (x *Exec) sprintf(s *State, call *ssa.CallCommon, args []Val) (Val, bool) {
	fc, ok := call.Args[0].(*ssa.Const)
	lv, ok2 := args[1].(ListVal)
	if !ok || !ok2 {
		x.E.Note("fmt.Sprintf with non-constant format in %s: result unconstrained", x.fn.String())
		return TermVal{smt.Fresh("sprintf", smt.Seq(smt.Int))}, true
	}
	format := constant.StringVal(fc.Value)
	x.E.Note("fmt.Sprintf verbs are interpreted by trusted spec functions fmt$dec / fmt$pad2 / fmt$hex (assumed contract of package fmt)")
	var parts []*smt.Term
	ai := 0
	i := 0
	lit := []byte{}
	flush := func() {
		if len(lit) > 0 {
			parts = append(parts, smt.SeqLitInts(lit))
			lit = nil
		}
	}
	for i < len(format) {
		ch := format[i]
		if ch != '%' {
			lit = append(lit, ch)
			i++
			continue
		}
		j := i + 1
		for j < len(format) && strings.ContainsRune("0123456789+-# .", rune(format[j])) {
			j++
		}
		if j >= len(format) {
			break
		}
		flags, verb := format[i+1:j], format[j]
		i = j + 1
		if verb == '%' {
			lit = append(lit, '%')
			continue
		}
		flush()
		if ai >= len(lv.Elems) {
			parts = append(parts, smt.Fresh("fmt$missing", smt.Seq(smt.Int)))
			continue
		}
		arg := lv.Elems[ai]
		ai++
		bv, isBoxed := arg.(BoxedVal)
		if !isBoxed {
			parts = append(parts, smt.Fresh("fmt$arg", smt.Seq(smt.Int)))
			continue
		}
		_, _, isInt := IntInfo(bv.Type)
		switch {
		case verb == 'd' && isInt && flags == "":
			parts = append(parts, FmtDec(x.toTerm(s, bv.Inner, bv.Type)))
		case verb == 'd' && isInt:
			parts = append(parts, smt.App("fmt$d$"+sanitizeFlags(flags), smt.Seq(smt.Int), x.toTerm(s, bv.Inner, bv.Type)))
		case verb == 'x' && isInt:
			parts = append(parts, smt.App("fmt$x$"+sanitizeFlags(flags), smt.Seq(smt.Int), x.toTerm(s, bv.Inner, bv.Type)))
		case verb == 's' && flags == "":
			if bs, ok := bv.Type.Underlying().(*types.Basic); ok && bs.Info()&types.IsString != 0 && x.stringMethod(bv.Type) == nil {
				parts = append(parts, x.toTerm(s, bv.Inner, bv.Type))
			} else if t := x.stringerTerm(s, bv); t != nil {
				parts = append(parts, t)
			} else {
				parts = append(parts, smt.Fresh("fmt$s", smt.Seq(smt.Int)))
			}
		case verb == 'x' && x.E.SortOf(bv.Type) == smt.Seq(smt.Int):
			parts = append(parts, smt.App("fmt$xs$"+sanitizeFlags(flags), smt.Seq(smt.Int), x.toTerm(s, bv.Inner, bv.Type)))
		default:
			parts = append(parts, smt.Fresh("fmt$"+string(verb), smt.Seq(smt.Int)))
		}
	}
	flush()
	if len(parts) == 0 {
		return TermVal{smt.SeqEmpty(smt.Int)}, true
	}
	return TermVal{smt.SeqConcat(parts...)}, true
}

func sanitizeFlags(f string) string {
	if f == "" {
		return "plain"
	}
	return strings.NewReplacer("+", "p", "-", "m", "#", "h", " ", "s", ".", "d").Replace(f)
}

func FmtDec(v *smt.Term) *smt.Term { return smt.App("fmt$dec", smt.Seq(smt.Int), v) }

// ---------- inlining ----------

func (x *Exec) inlineCall(s *State, fn *ssa.Function, bindings []Val, args []Val) (Val, bool) {
	if x.inlineDepth > 4 {
		x.unsupported("inlining depth exceeded at %s", fn.String())
		return nil, false
	}
	// Inlined bodies must be loop-free and must not branch into multiple continuations that return different
	// values in a way we cannot merge: we support them by continuing each path through a continuation is not
	// possible in this executor, so inlined functions are restricted to those whose paths can be merged by ite.
	for _, b := range fn.Blocks {
		for _, succ := range b.Succs {
			if succ.Dominates(b) {
				x.unsupported("inlined function %s contains a loop", fn.String())
				return nil, false
			}
		}
	}
	for i, p := range fn.Params {
		if i < len(args) {
			s.env[p] = args[i]
		}
	}
	for i, fv := range fn.FreeVars {
		if i < len(bindings) {
			s.env[fv] = bindings[i]
		}
	}
	type outcome struct {
		st   *State
		vals []Val
	}
	var outs []outcome
	savedRet, savedDefers := x.retHandler, s.defers
	s.defers = nil
	x.retHandler = func(st *State, rs []Val) { outs = append(outs, outcome{st, rs}) }
	x.inlineDepth++
	savedLoops := x.loops
	savedFn := x.fn
	_ = savedFn
	x.execBlock(s, fn.Blocks[0], nil)
	x.loops = savedLoops
	x.inlineDepth--
	x.retHandler = savedRet
	if len(x.unsup) > 0 {
		return nil, false
	}
	if len(outs) == 0 {
		return nil, false // all paths ended (panic / no return)
	}
	for _, o := range outs[1:] {
		o.st.defers = append([]deferred{}, savedDefers...)
		x.forks = append(x.forks, fork{st: o.st, val: resultVal(fn.Signature, o.vals)})
	}
	o := outs[0]
	// adopt the callee's final state
	*s = *o.st
	s.defers = savedDefers
	return resultVal(fn.Signature, o.vals), true
}

// ---------- contracts at call sites ----------

type copyOut struct {
	addr *Addr
	tok  *smt.Term
	heap string
}

func (x *Exec) applyContract(s *State, c *Contract, call *ssa.CallCommon, args []Val) (Val, bool) {
	x.E.usedContracts[c] = true
	var copyOuts []copyOut
	sig := call.Signature()
	vars := map[string]SVal{}
	argVals := callArgs(call)
	for i, p := range c.Params {
		if i >= len(args) {
			break
		}
		pt := p.Type()
		if i < len(argVals) {
			// for invoke the receiver static type is the interface
			if call.IsInvoke() && i == 0 {
				pt = argVals[0].Type()
			}
		}
		// variadic: remaining args packed by SSA already
		// &x.f / &local passed to a callee whose contract speaks about deref(p): copy-in / copy-out through a
		// fresh box (the callee is assumed to reach the location only through this pointer)
		if av, isAddr := args[i].(AddrVal); isAddr && !(av.A.Kind == BaseBox && len(av.A.Steps) == 0) {
			if ptr, ok := pt.Underlying().(*types.Pointer); ok && !isStruct(ptr.Elem()) {
				tok := smt.Fresh("box$"+c.ParamNm[i], smt.Ref)
				s.assume(smt.Neq(tok, RefNil))
				bh, _ := x.E.boxHeap(ptr.Elem())
				cur := x.toTerm(s, x.load(s, av.A), ptr.Elem())
				s.heap[bh] = smt.Store(x.Heap(s, bh), tok, cur)
				copyOuts = append(copyOuts, copyOut{addr: av.A, tok: tok, heap: bh})
				x.E.Note("address-of argument in %s passed by copy-in/copy-out (no other access path assumed)", x.fn.String())
				vars[c.ParamNm[i]] = SVal{T: tok, GT: pt}
				continue
			}
		}
		vars[c.ParamNm[i]] = SVal{T: x.argTerm(s, args[i], pt), GT: pt}
	}
	defer func() {
		for _, co := range copyOuts {
			x.store(s, co.addr, TermVal{smt.Select(x.Heap(s, co.heap), co.tok)})
		}
	}()
	// ghost logical variables of the callee are not supported at call sites
	pre := copyHeap(s.heap)
	callerEnv := &SpecEnv{X: x, S: s, Old: pre, Vars: vars, Pkg: c.SpecPkg, Fn: x.fn, CalleeView: true}
	label := x.instrLabel(x.curInstr, "call")
	for i, r := range c.Requires {
		goal := x.evalBool(callerEnv, r.E)
		x.addObl(s, "pre", fmt.Sprintf("%s:%s:%s", label, shortObjName(c.Obj), clauseLabel(r, i)), goal, x.c.Props, r.Src)
		s.assume(goal)
	}
	// havoc
	tag := "c" + strconv.Itoa(x.ordinal("callsite"))
	postParams := map[string]*smt.Term{}
	if c.Pure {
		// nothing
	} else if !c.AssignsSet {
		x.E.Note("contract of %s has no assigns clause: all heap state havocked at call sites", c.Obj.FullName())
		x.havocAllHeap(s, tag)
	} else {
		for _, a := range c.Assigns {
			// post(param)
			if cl, ok := a.(*spec.Call); ok {
				if id, ok := cl.Fun.(*spec.Ident); ok && id.Name == "post" && len(cl.Args) == 1 {
					pid, ok := cl.Args[0].(*spec.Ident)
					if !ok {
						x.unsupported("post() target must be a parameter")
						continue
					}
					for i, n := range c.ParamNm {
						if n != pid.Name || i >= len(argVals) {
							continue
						}
						oldT := vars[n].T
						nv := smt.Fresh("post$"+n, oldT.Sort)
						s.assume(smt.Eq(smt.SeqLen(nv), smt.SeqLen(oldT)))
						postParams[n] = nv
						o := x.sliceOrigin(s, argVals[i])
						if o == nil {
							x.unsupported("callee %s writes through slice argument %s whose origin is not tracked", c.Obj.Name(), n)
							continue
						}
						x.writeBackSlice(s, argVals[i], o, nv)
					}
					continue
				}
			}
			if id, ok := a.(*spec.Ident); ok && id.Name == "unrestricted" {
				// every real heap entry except write-restricted ones this callee cannot reach; ghost variables and
				// ghost fields only change when a contract lists them
				keep := map[string]bool{}
				for k, v := range x.havocKeep {
					keep[k] = v
				}
				for h := range x.E.HeapSorts {
					if strings.HasPrefix(h, "GV$") || strings.HasPrefix(h, "GF$") {
						keep[h] = true
					}
				}
				saved := x.havocKeep
				x.havocKeep = keep
				x.havocAllHeap(s, tag)
				x.havocKeep = saved
				continue
			}
			preEnv := *callerEnv
			preEnv.S = &State{heap: pre, pc: nil}
			x.havocTargetIn(s, &preEnv, a, tag)
		}
	}
	// results
	results := map[string]SVal{}
	var vals []Val
	if c.Pure && len(c.Results) == 1 && len(c.Ensures) == 0 {
		// deterministic function of its arguments
		var as []*smt.Term
		for i := range c.Params {
			if i < len(args) {
				as = append(as, vars[c.ParamNm[i]].T)
			}
		}
		rt := c.Results[0].Type()
		r := smt.App("pure$"+shortObjName(c.Obj), x.E.SortOf(rt), as...)
		x.typeFacts(s, r, rt, 0)
		vals = append(vals, TermVal{r})
	} else {
		for i, r := range c.Results {
			rt := r.Type()
			var t *smt.Term
			if c.Pure {
				var as []*smt.Term
				for j := range c.Params {
					if j < len(args) {
						as = append(as, vars[c.ParamNm[j]].T)
					}
				}
				t = smt.App(fmt.Sprintf("pure$%s$%d", shortObjName(c.Obj), i), x.E.SortOf(rt), as...)
				x.typeFacts(s, t, rt, 0)
			} else {
				t = x.freshOf(s, rt, "r$"+c.Obj.Name()+"$"+c.ResultNm[i])
			}
			results[c.ResultNm[i]] = SVal{T: t, GT: rt}
			vals = append(vals, TermVal{t})
		}
	}
	if len(results) == 0 && len(vals) == 1 {
		results[c.ResultNm[0]] = SVal{T: vals[0].(TermVal).T, GT: c.Results[0].Type()}
	}
	allocPre, okA := s.heap["$alloc"]
	if !okA {
		allocPre = x.entryAlloc()
	}
	postEnv := &SpecEnv{X: x, S: s, Old: pre, Vars: vars, Results: results, Pkg: c.SpecPkg, Fn: x.fn, PostParams: postParams, CalleeView: true, AllocPre: allocPre}
	for _, en := range c.Ensures {
		s.assume(x.evalBool(postEnv, en.E))
	}
	// objects returned by the callee are allocated from now on
	for _, v := range vals {
		if tv, ok := v.(TermVal); ok && tv.T.Sort == smt.Ref {
			cur, ok := s.heap["$alloc"]
			if !ok {
				cur = x.entryAlloc()
			}
			x.E.HeapSorts["$alloc"] = smt.Arr(smt.Ref, smt.Bool)
			s.heap["$alloc"] = smt.Store(cur, tv.T, smt.True)
		}
	}
	// ... and so is every object the contract calls fresh(...)
	for _, en := range c.Ensures {
		for _, fe := range freshArgs(en.E, nil) {
			func() {
				defer func() { recover() }()
				v := x.eval(postEnv, fe)
				if v.T != nil && v.T.Sort == smt.Ref {
					cur, ok := s.heap["$alloc"]
					if !ok {
						cur = x.entryAlloc()
					}
					x.E.HeapSorts["$alloc"] = smt.Arr(smt.Ref, smt.Bool)
					s.heap["$alloc"] = smt.Store(cur, v.T, smt.True)
				}
			}()
		}
	}
	_ = sig
	return resultVal(sig, vals), true
}

// freshArgs collects the arguments of fresh(...) applications in a spec expression.
func freshArgs(e spec.Expr, out []spec.Expr) []spec.Expr {
	switch e := e.(type) {
	case *spec.Call:
		if id, ok := e.Fun.(*spec.Ident); ok && (id.Name == "fresh" || id.Name == "live") && len(e.Args) == 1 {
			return append(out, e.Args[0])
		}
		for _, a := range e.Args {
			out = freshArgs(a, out)
		}
	case *spec.Binary:
		out = freshArgs(e.X, out)
		out = freshArgs(e.Y, out)
	case *spec.Unary:
		out = freshArgs(e.X, out)
	}
	return out
}

func shortObjName(f *types.Func) string {
	sig := f.Type().(*types.Signature)
	if r := sig.Recv(); r != nil {
		t := r.Type()
		if p, ok := t.(*types.Pointer); ok {
			t = p.Elem()
		}
		if n, ok := t.(*types.Named); ok {
			return n.Obj().Name() + "." + f.Name()
		}
		return "iface." + f.Name()
	}
	if f.Pkg() != nil {
		return f.Pkg().Name() + "." + f.Name()
	}
	return f.Name()
}

// argTerm converts an argument value to a term of the parameter's sort.
func (x *Exec) argTerm(s *State, v Val, pt types.Type) *smt.Term {
	return x.toTerm(s, v, pt)
}

// ---------- function-typed field contracts ----------

type FieldContract struct {
	*spec.FuncContract
	Field *types.Var
	Owner types.Type
	Sig   *types.Signature
}

func (x *Exec) fieldContract(v ssa.Value) *FieldContract {
	u, ok := v.(*ssa.UnOp)
	if !ok {
		return nil
	}
	fa, ok := u.X.(*ssa.FieldAddr)
	if !ok {
		// a local that was assigned exactly once, from a struct field: f := sc.countErrorFunc; ...; f(x)
		al, isCell := u.X.(*ssa.Alloc)
		if !isCell || al.Parent() == nil {
			return nil
		}
		var src *ssa.FieldAddr
		n := 0
		for _, b := range al.Parent().Blocks {
			for _, in := range b.Instrs {
				if st, ok := in.(*ssa.Store); ok && st.Addr == ssa.Value(al) {
					n++
					if ld, ok := st.Val.(*ssa.UnOp); ok {
						src, _ = ld.X.(*ssa.FieldAddr)
					}
				}
			}
		}
		if n != 1 || src == nil {
			return nil
		}
		fa = src
	}
	st := fa.X.Type().Underlying().(*types.Pointer).Elem()
	fld := st.Underlying().(*types.Struct).Field(fa.Field)
	return x.E.FieldContracts[fld]
}

func (x *Exec) applyFieldContract(s *State, fc *FieldContract, call *ssa.CallCommon, fnv Val, args []Val) (Val, bool) {
	sig := call.Signature()
	fnT := x.toTerm(s, fnv, call.Value.Type())
	var as []*smt.Term
	as = append(as, fnT)
	vars := map[string]SVal{"self": {T: fnT, GT: call.Value.Type()}}
	// the object whose field holds the function value
	if u, ok := call.Value.(*ssa.UnOp); ok {
		if fa, ok := u.X.(*ssa.FieldAddr); ok {
			if ov, ok := s.env[fa.X]; ok {
				if tv, ok := ov.(TermVal); ok {
					vars["owner"] = SVal{T: tv.T, GT: fa.X.Type()}
				}
			}
		}
	}
	for i, a := range args {
		t := x.toTerm(s, a, call.Args[i].Type())
		as = append(as, t)
		name := fmt.Sprintf("arg%d", i)
		if i < len(fc.ParamNames) {
			name = fc.ParamNames[i]
		}
		vars[name] = SVal{T: t, GT: call.Args[i].Type()}
	}
	pre := copyHeap(s.heap)
	env := &SpecEnv{X: x, S: s, Old: pre, Vars: vars, Pkg: x.fn.Pkg.Pkg, Fn: x.fn, CalleeView: true}
	label := x.instrLabel(x.curInstr, "call")
	for i, r := range fc.Requires {
		goal := x.evalBool(env, r.E)
		x.addObl(s, "pre", fmt.Sprintf("%s:field.%s:%s", label, fc.Field.Name(), clauseLabel(r, i)), goal, x.c.Props, r.Src)
		s.assume(goal)
	}
	if !fc.Pure {
		if fc.AssignsSet {
			for _, a := range fc.Assigns {
				preEnv := *env
				preEnv.S = &State{heap: pre}
				x.havocTargetIn(s, &preEnv, a, "fld")
			}
		} else {
			x.havocAllHeap(s, "fld")
		}
	}
	var vals []Val
	results := map[string]SVal{}
	for i := 0; i < sig.Results().Len(); i++ {
		rt := sig.Results().At(i).Type()
		var t *smt.Term
		if fc.Pure && len(fc.Ensures) == 0 {
			t = smt.App(fmt.Sprintf("fieldfn$%s$%d", fc.Field.Name(), i), x.E.SortOf(rt), as...)
			x.typeFacts(s, t, rt, 0)
		} else {
			t = x.freshOf(s, rt, "r$"+fc.Field.Name())
		}
		name := fmt.Sprintf("result%d", i)
		if sig.Results().Len() == 1 {
			name = "result"
		}
		if i < len(fc.ResNames) {
			name = fc.ResNames[i]
		}
		results[name] = SVal{T: t, GT: rt}
		vals = append(vals, TermVal{t})
	}
	postEnv := *env
	postEnv.Results = results
	for _, en := range fc.Ensures {
		s.assume(x.evalBool(&postEnv, en.E))
	}
	return resultVal(sig, vals), true
}

// dispatchKnownFuncs handles a call through a function value by case analysis over the module functions under
// contract that have the same signature: if the callee value equals function F, F's contract applies.
// Preconditions become obligations guarded by the equality; effects are over-approximated by the union of the
// candidates' assigns clauses. If the value equals none of them the results stay unconstrained.
func (x *Exec) dispatchKnownFuncs(s *State, call *ssa.CallCommon, fnv Val, args []Val) (Val, bool, bool) {
	sig := call.Signature()
	if nt, ok := call.Value.Type().(*types.Named); ok && nt.Obj().Pkg() != nil && nt.Obj().Pkg().Path() == "context" && nt.Obj().Name() == "CancelFunc" {
		return nil, false, false // a context.CancelFunc is a closure made by package context, never a module function
	}
	var cands []*Contract
	for _, c := range x.E.SortedContracts() {
		if c.Fn == nil && !c.Trusted {
			continue
		}
		cs, ok := c.Obj.Type().(*types.Signature)
		if !ok || cs.Recv() != nil {
			continue
		}
		if !x.E.inModule(c.Obj.Pkg()) {
			continue
		}
		if types.Identical(types.NewSignatureType(nil, nil, nil, cs.Params(), cs.Results(), cs.Variadic()), types.NewSignatureType(nil, nil, nil, sig.Params(), sig.Results(), sig.Variadic())) {
			cands = append(cands, c)
		}
	}
	if len(cands) == 0 {
		return nil, false, false
	}
	fnT := x.toTerm(s, fnv, call.Value.Type())
	x.E.Note("call through a function value in %s: resolved by case analysis over %d module functions of the same signature", x.fn.String(), len(cands))
	pre := copyHeap(s.heap)
	label := x.instrLabel(x.curInstr, "call")
	type candEnv struct {
		c    *Contract
		vars map[string]SVal
		eq   *smt.Term
	}
	var ces []candEnv
	for _, c := range cands {
		x.E.usedContracts[c] = true
		vars := map[string]SVal{}
		for i, p := range c.Params {
			if i < len(args) {
				vars[c.ParamNm[i]] = SVal{T: x.toTerm(s, args[i], p.Type()), GT: p.Type()}
			}
		}
		var fc *smt.Term
		if f := x.E.Prog.FuncValue(c.Obj); f != nil {
			fc = x.E.FnConst(f)
		} else {
			continue
		}
		eq := smt.Eq(fnT, fc)
		env := &SpecEnv{X: x, S: s, Old: pre, Vars: vars, Pkg: c.SpecPkg, Fn: x.fn, CalleeView: true}
		for i, r := range c.Requires {
			goal := smt.Implies(eq, x.evalBool(env, r.E))
			x.addObl(s, "pre", fmt.Sprintf("%s:dyn:%s:%s", label, shortObjName(c.Obj), clauseLabel(r, i)), goal, x.c.Props, r.Src)
			s.assume(goal)
		}
		ces = append(ces, candEnv{c, vars, eq})
	}
	tag := "d" + strconv.Itoa(x.ordinal("callsite"))
	all := false
	for _, ce := range ces {
		if ce.c.Pure {
			continue
		}
		if !ce.c.AssignsSet {
			all = true
			break
		}
	}
	if all {
		x.havocAllHeap(s, tag)
	} else {
		for _, ce := range ces {
			if ce.c.Pure {
				continue
			}
			preEnv := &SpecEnv{X: x, S: &State{heap: pre}, Old: pre, Vars: ce.vars, Pkg: ce.c.SpecPkg, Fn: x.fn, CalleeView: true}
			for _, a := range ce.c.Assigns {
				if cl, ok := a.(*spec.Call); ok {
					if id, ok := cl.Fun.(*spec.Ident); ok && id.Name == "post" {
						x.unsupported("post() target in a contract used through a function value")
						continue
					}
				}
				x.havocTargetIn(s, preEnv, a, tag)
			}
		}
	}
	var vals []Val
	var rterms []*smt.Term
	for i := 0; i < sig.Results().Len(); i++ {
		t := x.freshOf(s, sig.Results().At(i).Type(), "r$dyn")
		rterms = append(rterms, t)
		vals = append(vals, TermVal{t})
	}
	allocPre, okA := s.heap["$alloc"]
	if !okA {
		allocPre = x.entryAlloc()
	}
	for _, ce := range ces {
		results := map[string]SVal{}
		for i := range rterms {
			if i < len(ce.c.ResultNm) {
				results[ce.c.ResultNm[i]] = SVal{T: rterms[i], GT: sig.Results().At(i).Type()}
			}
		}
		env := &SpecEnv{X: x, S: s, Old: pre, Vars: ce.vars, Results: results, Pkg: ce.c.SpecPkg, Fn: x.fn, CalleeView: true, AllocPre: allocPre}
		hasSummary := false
		for _, en := range ce.c.Ensures {
			if strings.HasPrefix(en.Label, "any-") {
				hasSummary = true
			}
		}
		for _, en := range ce.c.Ensures {
			if hasSummary && !strings.HasPrefix(en.Label, "any-") {
				continue // summary clauses (label any-*) are what callers through a function value get
			}
			s.assume(smt.Implies(ce.eq, x.evalBool(env, en.E)))
		}
	}
	return resultVal(sig, vals), true, true
}

// knownFuncFacts: after a call through a function value whose result is already determined (pure field
// contract), add what is known when the value is a particular side-effect-free module function under contract.
func (x *Exec) knownFuncFacts(s *State, call *ssa.CallCommon, fnv Val, args []Val, res Val) {
	sig := call.Signature()
	var rterms []*smt.Term
	switch r := res.(type) {
	case TermVal:
		rterms = []*smt.Term{r.T}
	case TupleVal:
		for _, e := range r.Elems {
			if tv, ok := e.(TermVal); ok {
				rterms = append(rterms, tv.T)
			}
		}
	}
	if len(rterms) != sig.Results().Len() {
		return
	}
	fnT := x.toTerm(s, fnv, call.Value.Type())
	for _, c := range x.E.SortedContracts() {
		cs, ok := c.Obj.Type().(*types.Signature)
		if !ok || cs.Recv() != nil || !x.E.inModule(c.Obj.Pkg()) {
			continue
		}
		if !(c.Pure || (c.AssignsSet && len(c.Assigns) == 0)) || len(c.Requires) > 0 && false {
			continue
		}
		if !types.Identical(types.NewSignatureType(nil, nil, nil, cs.Params(), cs.Results(), cs.Variadic()), types.NewSignatureType(nil, nil, nil, sig.Params(), sig.Results(), sig.Variadic())) {
			continue
		}
		f := x.E.Prog.FuncValue(c.Obj)
		if f == nil {
			continue
		}
		x.E.usedContracts[c] = true
		vars := map[string]SVal{}
		for i, p := range c.Params {
			if i < len(args) {
				vars[c.ParamNm[i]] = SVal{T: x.toTerm(s, args[i], p.Type()), GT: p.Type()}
			}
		}
		results := map[string]SVal{}
		for i := range rterms {
			results[c.ResultNm[i]] = SVal{T: rterms[i], GT: sig.Results().At(i).Type()}
		}
		env := &SpecEnv{X: x, S: s, Old: copyHeap(s.heap), Vars: vars, Results: results, Pkg: c.SpecPkg, Fn: x.fn, CalleeView: true}
		eq := smt.Eq(fnT, x.E.FnConst(f))
		var pre []*smt.Term
		for _, r := range c.Requires {
			pre = append(pre, x.evalBool(env, r.E))
		}
		for _, en := range c.Ensures {
			s.assume(smt.Implies(smt.And(append([]*smt.Term{eq}, pre...)...), x.evalBool(env, en.E)))
		}
	}
}

// stringMethod finds a String() string method of t that is under contract.
func (x *Exec) stringMethod(t types.Type) *Contract {
	for _, tt := range []types.Type{t, types.NewPointer(t)} {
		ms := types.NewMethodSet(tt)
		for i := 0; i < ms.Len(); i++ {
			f, ok := ms.At(i).Obj().(*types.Func)
			if !ok || f.Name() != "String" {
				continue
			}
			sig := f.Type().(*types.Signature)
			if sig.Params().Len() != 0 || sig.Results().Len() != 1 {
				continue
			}
			if c, ok := x.E.Contracts[f]; ok {
				if _, isPtr := sig.Recv().Type().(*types.Pointer); isPtr != (tt != t) {
					continue
				}
				return c
			}
		}
	}
	return nil
}

// stringerTerm: fmt's %s on a value whose type has a String method under a side-effect-free contract yields
// that method's result: an uninterpreted term constrained by the contract's postconditions.
func (x *Exec) stringerTerm(s *State, bv BoxedVal) *smt.Term {
	c := x.stringMethod(bv.Type)
	if c == nil || !(c.Pure || (c.AssignsSet && len(c.Assigns) == 0)) {
		return nil
	}
	x.E.usedContracts[c] = true
	recv := x.toTerm(s, bv.Inner, bv.Type)
	r := smt.App("String$"+shortTypeName(bv.Type), smt.Seq(smt.Int), recv)
	vars := map[string]SVal{c.ParamNm[0]: {T: recv, GT: c.Params[0].Type()}}
	results := map[string]SVal{c.ResultNm[0]: {T: r, GT: types.Typ[types.String]}}
	env := &SpecEnv{X: x, S: s, Old: copyHeap(s.heap), Vars: vars, Results: results, Pkg: c.SpecPkg, Fn: x.fn, CalleeView: true}
	label := x.instrLabel(x.curInstr, "call")
	for i, rq := range c.Requires {
		goal := x.evalBool(env, rq.E)
		x.addObl(s, "pre", fmt.Sprintf("%s:%s:%s", label, shortObjName(c.Obj), clauseLabel(rq, i)), goal, x.c.Props, rq.Src)
		s.assume(goal)
	}
	for _, en := range c.Ensures {
		s.assume(x.evalBool(env, en.E))
	}
	return r
}
