package vc

// Replay: turn a solver model of a failed obligation into an in-package Go test that calls the real function
// with the model's inputs. Safety obligations reproduce as a panic; post-conditions are re-evaluated on the
// real results when the clause lies in the translatable subset (arithmetic, comparisons, len, indexing,
// slicing, fields of parameters/results, interface type tests on results, boolean connectives).

import (
	"fmt"
	"go/types"
	"regexp"
	"sort"
	"strconv"
	"strings"

	"govc/smt"
	"govc/spec"
)

type ReplayInfo struct {
	PkgPath    string
	PkgName    string
	PkgDir     string
	FuncExpr   string // how to call it from inside the package, with %s for the receiver expression
	HasRecv    bool
	RecvPtr    bool
	ParamNames []string
	ParamTypes []types.Type
	ResultNm   []string
	ResultTy   []types.Type
	Terms      map[string]*smt.Term // model terms: "p.<name>", "nil.<name>", "f.<name>.<field>", "g.<name>.<field>.view"
}

// ---------- s-expressions ----------

type sexpr struct {
	atom string
	list []*sexpr
	isL  bool
}

func parseSexprs(src string) []*sexpr {
	var toks []string
	i := 0
	for i < len(src) {
		c := src[i]
		switch {
		case c == '(' || c == ')':
			toks = append(toks, string(c))
			i++
		case c == ' ' || c == '\n' || c == '\t' || c == '\r':
			i++
		case c == '|':
			j := strings.IndexByte(src[i+1:], '|')
			if j < 0 {
				j = len(src) - i - 2
			}
			toks = append(toks, src[i:i+j+2])
			i += j + 2
		case c == '"':
			j := i + 1
			for j < len(src) && src[j] != '"' {
				j++
			}
			toks = append(toks, src[i:j+1])
			i = j + 1
		default:
			j := i
			for j < len(src) && !strings.ContainsRune("() \n\t\r", rune(src[j])) {
				j++
			}
			toks = append(toks, src[i:j])
			i = j
		}
	}
	pos := 0
	var parse func() *sexpr
	parse = func() *sexpr {
		if pos >= len(toks) {
			return nil
		}
		t := toks[pos]
		pos++
		if t == "(" {
			n := &sexpr{isL: true}
			for pos < len(toks) && toks[pos] != ")" {
				n.list = append(n.list, parse())
			}
			pos++
			return n
		}
		return &sexpr{atom: t}
	}
	var out []*sexpr
	for pos < len(toks) {
		if e := parse(); e != nil {
			out = append(out, e)
		}
	}
	return out
}

func (s *sexpr) String() string {
	if !s.isL {
		return s.atom
	}
	var parts []string
	for _, x := range s.list {
		parts = append(parts, x.String())
	}
	return "(" + strings.Join(parts, " ") + ")"
}

// ParseGetValue maps the printed term text of each requested value to its value s-expression.
func ParseGetValue(model string) []*sexpr {
	es := parseSexprs(model)
	var out []*sexpr
	for _, e := range es {
		if !e.isL {
			continue
		}
		for _, pair := range e.list {
			if pair.isL && len(pair.list) == 2 {
				out = append(out, pair.list[1])
			}
		}
		break
	}
	return out
}

// ---------- model value -> Go literal ----------

func sexprInt(e *sexpr) (int64, bool) {
	if e == nil {
		return 0, false
	}
	if !e.isL {
		v, err := strconv.ParseInt(e.atom, 10, 64)
		if err != nil {
			// large unsigned
			u, err2 := strconv.ParseUint(e.atom, 10, 64)
			if err2 != nil {
				return 0, false
			}
			return int64(u), true
		}
		return v, true
	}
	if len(e.list) == 2 && e.list[0].atom == "-" {
		v, ok := sexprInt(e.list[1])
		return -v, ok
	}
	return 0, false
}

func seqElems(e *sexpr) ([]*sexpr, bool) {
	if e == nil {
		return nil, false
	}
	if e.isL && len(e.list) >= 1 {
		switch e.list[0].atom {
		case "as":
			if len(e.list) >= 2 && e.list[1].atom == "seq.empty" {
				return nil, true
			}
		case "seq.unit":
			return []*sexpr{e.list[1]}, true
		case "seq.++":
			var out []*sexpr
			for _, p := range e.list[1:] {
				el, ok := seqElems(p)
				if !ok {
					return nil, false
				}
				out = append(out, el...)
			}
			return out, true
		}
	}
	if !e.isL && strings.HasPrefix(e.atom, "\"") {
		// string literal (cvc5 may print strings for Seq Int? no) -- unsupported
		return nil, false
	}
	return nil, false
}

func typeExpr(t types.Type, pkg *types.Package) string {
	return types.TypeString(t, func(p *types.Package) string {
		if p == pkg {
			return ""
		}
		return p.Name()
	})
}

// goLiteral renders a model value of Go type t.
func goLiteral(e *sexpr, t types.Type, pkg *types.Package) (string, bool) {
	switch u := t.Underlying().(type) {
	case *types.Basic:
		switch {
		case u.Info()&types.IsInteger != 0:
			v, ok := sexprInt(e)
			if !ok {
				return "", false
			}
			if u.Info()&types.IsUnsigned != 0 {
				return fmt.Sprintf("%s(%d)", typeExpr(t, pkg), uint64(v)), true
			}
			return fmt.Sprintf("%s(%d)", typeExpr(t, pkg), v), true
		case u.Info()&types.IsBoolean != 0:
			return fmt.Sprintf("%s(%s)", typeExpr(t, pkg), e.atom), e.atom == "true" || e.atom == "false"
		case u.Info()&types.IsString != 0:
			els, ok := seqElems(e)
			if !ok {
				return "", false
			}
			var bs []string
			for _, x := range els {
				v, ok := sexprInt(x)
				if !ok {
					return "", false
				}
				bs = append(bs, strconv.Itoa(int(byte(v))))
			}
			return fmt.Sprintf("%s([]byte{%s})", typeExpr(t, pkg), strings.Join(bs, ",")), true
		}
	case *types.Slice:
		els, ok := seqElems(e)
		if !ok {
			return "", false
		}
		if len(els) > 1<<16 {
			return "", false
		}
		var parts []string
		for _, x := range els {
			l, ok := goLiteral(x, u.Elem(), pkg)
			if !ok {
				return "", false
			}
			parts = append(parts, l)
		}
		return fmt.Sprintf("%s{%s}", typeExpr(t, pkg), strings.Join(parts, ",")), true
	case *types.Array:
		els, ok := seqElems(e)
		if !ok {
			return "", false
		}
		var parts []string
		for i, x := range els {
			if int64(i) >= u.Len() {
				break
			}
			l, ok := goLiteral(x, u.Elem(), pkg)
			if !ok {
				return "", false
			}
			parts = append(parts, l)
		}
		return fmt.Sprintf("%s{%s}", typeExpr(t, pkg), strings.Join(parts, ",")), true
	case *types.Struct:
		if !e.isL || len(e.list) < 1 {
			return "", false
		}
		var parts []string
		for i := 0; i < u.NumFields(); i++ {
			if i+1 >= len(e.list) {
				return "", false
			}
			f := u.Field(i)
			if !f.Exported() && f.Pkg() != pkg {
				continue // cannot set; zero value
			}
			l, ok := goLiteral(e.list[i+1], f.Type(), pkg)
			if !ok {
				continue // leave zero
			}
			parts = append(parts, fmt.Sprintf("%s: %s", f.Name(), l))
		}
		return fmt.Sprintf("%s{%s}", typeExpr(t, pkg), strings.Join(parts, ", ")), true
	case *types.Signature:
		// a do-nothing function of that type
		var ps, rs []string
		for i := 0; i < u.Params().Len(); i++ {
			pt := typeExpr(u.Params().At(i).Type(), pkg)
			if u.Variadic() && i == u.Params().Len()-1 {
				pt = "..." + typeExpr(u.Params().At(i).Type().(*types.Slice).Elem(), pkg)
			}
			ps = append(ps, fmt.Sprintf("_ %s", pt))
		}
		for i := 0; i < u.Results().Len(); i++ {
			rs = append(rs, fmt.Sprintf("r%d %s", i, typeExpr(u.Results().At(i).Type(), pkg)))
		}
		return fmt.Sprintf("func(%s) (%s) { return }", strings.Join(ps, ", "), strings.Join(rs, ", ")), true
	case *types.Interface:
		replayApprox++
		return "nil", true
	case *types.Pointer, *types.Map, *types.Chan:
		replayApprox++
		return "nil", true
	}
	return "", false
}

// replayApprox counts the reference-typed inputs (interfaces, pointers, maps, channels) of the replay under
// construction that the harness could only render as nil although the model may hold another object there. A nil
// dereference in such a replay says nothing about the real code (GenReplayTest is called serially).
var replayApprox int

// replayInfo gathers what is needed to call the function under verification from a test.
func (x *Exec) replayInfo() *ReplayInfo {
	fn := x.fn
	if fn == nil || fn.Pkg == nil || x.c == nil || x.c.Obj == nil {
		return nil
	}
	ri := &ReplayInfo{PkgPath: fn.Pkg.Pkg.Path(), PkgName: fn.Pkg.Pkg.Name(), Terms: map[string]*smt.Term{}}
	sig := x.c.Obj.Type().(*types.Signature)
	if sig.Recv() != nil {
		ri.HasRecv = true
		_, ri.RecvPtr = sig.Recv().Type().(*types.Pointer)
		ri.FuncExpr = "%s." + x.c.Obj.Name()
	} else {
		ri.FuncExpr = x.c.Obj.Name()
	}
	for i, p := range x.c.Params {
		name := x.c.ParamNm[i]
		ri.ParamNames = append(ri.ParamNames, name)
		ri.ParamTypes = append(ri.ParamTypes, p.Type())
		v, ok := x.params[name]
		if !ok {
			continue
		}
		ri.Terms["p."+name] = v.T
		if st, ok := derefStruct(p.Type()); ok {
			ri.Terms["nil."+name] = smt.Eq(v.T, RefNil)
			x.fieldTerms(ri, name, v.T, st, 0)
		}
	}
	for i, r := range x.c.Results {
		ri.ResultNm = append(ri.ResultNm, x.c.ResultNm[i])
		ri.ResultTy = append(ri.ResultTy, r.Type())
	}
	return ri
}

func (x *Exec) fieldTerms(ri *ReplayInfo, prefix string, r *smt.Term, st types.Type, depth int) {
	u := st.Underlying().(*types.Struct)
	for i := 0; i < u.NumFields(); i++ {
		f := u.Field(i)
		ft := f.Type()
		key := prefix + "." + f.Name()
		if isStruct(ft) {
			sub := x.E.subRef(st, i, r)
			if gf, ok := x.E.GhostF["view"]; ok && gf.Owner != nil && types.Identical(gf.Owner, ft) {
				if h, ok := x.entryHeap[gf.Heap]; ok {
					ri.Terms["g."+key+".view"] = smt.Select(h, sub)
				}
			}
			if depth < 2 {
				x.fieldTerms(ri, key, sub, ft, depth+1)
			}
			continue
		}
		name, _, _ := x.E.fieldHeap(st, i)
		h, ok := x.entryHeap[name]
		if !ok {
			continue // never read: irrelevant to the counterexample
		}
		ri.Terms["f."+key] = smt.Select(h, r)
	}
}

// GenReplayTest renders the test source for one failed obligation. values maps ReplayInfo.Terms keys to model values.
func (e *Engine) GenReplayTest(c *Contract, ri *ReplayInfo, kind, oblName string, clause spec.Expr, values map[string]*sexpr) (src string, ok bool, note string) {
	pkg := c.Obj.Pkg()
	var b strings.Builder
	fmt.Fprintf(&b, "package %s\n\n// Generated by /verif/govc: replay of the solver counterexample for\n//   %s\n// against the real function.\n\n", ri.PkgName, oblName)
	b.WriteString("import (\n\t\"fmt\"\n\t\"reflect\"\n\t\"testing\"\n)\n\nvar _ = reflect.TypeOf\n\n")
	b.WriteString("func TestVerifReplay(t *testing.T) {\n")
	b.WriteString("\tdefer func() {\n\t\tif r := recover(); r != nil {\n\t\t\tfmt.Printf(\"VERIF-REPLAY: PANIC %v\\n\", r)\n\t\t\tt.Fatalf(\"real code panicked on the solver's input: %v\", r)\n\t\t}\n\t}()\n")
	replayApprox = 0
	var args []string
	recv := ""
	for i, name := range ri.ParamNames {
		pt := ri.ParamTypes[i]
		vn := "a_" + name
		lit := ""
		if st, isPtr := derefStruct(pt); isPtr {
			isNil := false
			if v, ok := values["nil."+name]; ok && v.atom == "true" {
				isNil = true
			}
			if isNil {
				lit = fmt.Sprintf("(%s)(nil)", typeExpr(pt, pkg))
			} else {
				lit = "&" + e.structLit(name, st, pkg, values, &b)
			}
		} else {
			v, ok := values["p."+name]
			if !ok {
				return "", false, "no model value for parameter " + name
			}
			l, ok := goLiteral(v, pt, pkg)
			if !ok {
				return "", false, fmt.Sprintf("parameter %s of type %s cannot be built from the model value %s", name, pt, v)
			}
			lit = l
		}
		fmt.Fprintf(&b, "\t%s := %s\n", vn, lit)
		if ri.HasRecv && i == 0 {
			recv = vn
		} else {
			args = append(args, vn)
		}
	}
	// late initialisation of ghost-backed fields (bytes.Buffer contents)
	for _, k := range sortedKeysS(values) {
		if strings.HasPrefix(k, "g.") && strings.HasSuffix(k, ".view") {
			path := strings.TrimSuffix(strings.TrimPrefix(k, "g."), ".view")
			l, ok := goLiteral(values[k], types.NewSlice(types.Typ[types.Uint8]), pkg)
			root := strings.SplitN(path, ".", 2)
			if ok && len(root) == 2 {
				if v, ok := values["nil."+root[0]]; !(ok && v.atom == "true") {
					fmt.Fprintf(&b, "\ta_%s.%s.Write(%s)\n", root[0], root[1], l)
				}
			}
		}
	}
	if replayApprox > 0 {
		fmt.Fprintf(&b, "\tfmt.Println(\"VERIF-REPLAY: APPROXIMATED-INPUTS %d reference-typed inputs rendered as nil\")\n", replayApprox)
	}
	call := fmt.Sprintf(ri.FuncExpr, recv)
	if !ri.HasRecv {
		call = ri.FuncExpr
	}
	var rvars []string
	for _, n := range ri.ResultNm {
		rvars = append(rvars, "r_"+n)
	}
	if len(rvars) > 0 {
		fmt.Fprintf(&b, "\t%s := %s(%s)\n", strings.Join(rvars, ", "), call, strings.Join(args, ", "))
		for _, r := range rvars {
			fmt.Fprintf(&b, "\t_ = %s\n", r)
		}
		fmt.Fprintf(&b, "\tfmt.Printf(\"VERIF-REPLAY: results %s\\n\", %s)\n", strings.Repeat("%#v ", len(rvars)), strings.Join(rvars, ", "))
	} else {
		fmt.Fprintf(&b, "\t%s(%s)\n", call, strings.Join(args, ", "))
	}
	note = "re-runs the real function on the model's inputs; a panic reproduces the violation"
	if kind == "post" && clause != nil {
		tr := &goTranslator{ri: ri, pkg: pkg, c: c, e: e}
		if g, ok := tr.expr(clause); ok {
			fmt.Fprintf(&b, "\tif !(%s) {\n\t\tfmt.Println(\"VERIF-REPLAY: CLAUSE-FALSE\")\n\t\tt.Fatalf(\"post-condition is false on the real results\")\n\t}\n", g)
			note = "re-runs the real function on the model's inputs and re-evaluates the post-condition on the real results"
		} else {
			note += "; the clause is outside the translatable subset (" + tr.why + "), so only panics are detected"
		}
	}
	b.WriteString("\tfmt.Println(\"VERIF-REPLAY: OK\")\n}\n")
	b.WriteString(ReplayHelpers)
	// import the packages whose qualifiers the generated literals use
	out := b.String()
	var extra []string
	for _, ip := range pkg.Imports() {
		if ip.Name() == "fmt" || ip.Name() == "reflect" || ip.Name() == "testing" {
			continue
		}
		if regexp.MustCompile(`[^A-Za-z0-9_.]` + regexp.QuoteMeta(ip.Name()) + `\.[A-Za-z_]`).MatchString(out) {
			extra = append(extra, fmt.Sprintf("\t%q\n", ip.Path()))
		}
	}
	if len(extra) > 0 {
		sort.Strings(extra)
		out = strings.Replace(out, "import (\n", "import (\n"+strings.Join(extra, ""), 1)
	}
	return out, true, note
}

func sortedKeysS(m map[string]*sexpr) []string {
	var ks []string
	for k := range m {
		ks = append(ks, k)
	}
	sort.Strings(ks)
	return ks
}

func (e *Engine) structLit(prefix string, st types.Type, pkg *types.Package, values map[string]*sexpr, pre *strings.Builder) string {
	u := st.Underlying().(*types.Struct)
	var parts []string
	for i := 0; i < u.NumFields(); i++ {
		f := u.Field(i)
		if !f.Exported() && f.Pkg() != pkg {
			continue
		}
		key := prefix + "." + f.Name()
		if isStruct(f.Type()) {
			if n, ok := f.Type().(*types.Named); ok && n.Obj().Pkg() != pkg && !allExported(f.Type()) {
				continue
			}
			parts = append(parts, fmt.Sprintf("%s: %s", f.Name(), e.structLit(key, f.Type(), pkg, values, pre)))
			continue
		}
		v, ok := values["f."+key]
		if !ok {
			continue
		}
		l, ok := goLiteral(v, f.Type(), pkg)
		if !ok || l == "nil" {
			continue
		}
		parts = append(parts, fmt.Sprintf("%s: %s", f.Name(), l))
	}
	return fmt.Sprintf("%s{%s}", typeExpr(st, pkg), strings.Join(parts, ", "))
}

func allExported(t types.Type) bool {
	u := t.Underlying().(*types.Struct)
	for i := 0; i < u.NumFields(); i++ {
		if !u.Field(i).Exported() {
			return false
		}
	}
	return true
}

// ---------- spec clause -> Go expression (subset) ----------

type goTranslator struct {
	ri    *ReplayInfo
	pkg   *types.Package
	c     *Contract
	e     *Engine
	env   map[string]string // spec-function parameters -> Go expressions
	depth int
	why   string
}

func (g *goTranslator) fail(why string) (string, bool) {
	if g.why == "" {
		g.why = why
	}
	return "", false
}

func (g *goTranslator) typeName(e spec.Expr) (string, bool) {
	switch e := e.(type) {
	case *spec.Ident:
		return e.Name, true
	case *spec.Sel:
		if id, ok := e.X.(*spec.Ident); ok {
			return id.Name + "." + e.Name, true
		}
	}
	return "", false
}

func (g *goTranslator) specType(t *spec.Type) (string, bool) {
	switch t.Kind {
	case "name":
		return t.Name, true
	case "ptr":
		x, ok := g.specType(t.Elem)
		return "*" + x, ok
	case "slice":
		x, ok := g.specType(t.Elem)
		return "[]" + x, ok
	}
	return "", false
}

func (g *goTranslator) expr(e spec.Expr) (string, bool) {
	switch e := e.(type) {
	case *spec.IntLit:
		return "int64(" + e.Val + ")", true
	case *spec.BoolLit:
		return fmt.Sprint(e.Val), true
	case *spec.StrLit:
		return strconv.Quote(e.Val), true
	case *spec.Ident:
		if v, ok := g.env[e.Name]; ok {
			return v, true
		}
		for _, n := range g.ri.ResultNm {
			if n == e.Name {
				return "r_" + n, true
			}
		}
		for i, n := range g.ri.ParamNames {
			if n == e.Name {
				if _, isPtr := derefStruct(g.ri.ParamTypes[i]); isPtr {
					return g.fail("pointer parameter " + n + " (its post-state may differ from the entry state)")
				}
				return "a_" + n, true
			}
		}
		if e.Name == "nil" {
			return "nil", true
		}
		if o := g.pkg.Scope().Lookup(e.Name); o != nil {
			switch o.(type) {
			case *types.Const, *types.Var, *types.Func:
				return e.Name, true
			}
		}
		return g.fail("identifier " + e.Name)
	case *spec.Unary:
		x, ok := g.expr(e.X)
		if !ok {
			return "", false
		}
		if e.Op == "-" {
			return "(-verifInt(" + x + "))", true
		}
		return "(!" + x + ")", true
	case *spec.Binary:
		x, ok := g.expr(e.X)
		if !ok {
			return "", false
		}
		y, ok := g.expr(e.Y)
		if !ok {
			return "", false
		}
		switch e.Op {
		case "==>":
			return fmt.Sprintf("(!(%s) || (%s))", x, y), true
		case "<==>":
			return fmt.Sprintf("((%s) == (%s))", x, y), true
		case "&&", "||":
			return fmt.Sprintf("(%s %s %s)", x, e.Op, y), true
		case "<", "<=", ">", ">=", "+", "-", "*":
			return fmt.Sprintf("(verifInt(%s) %s verifInt(%s))", x, e.Op, y), true
		case "/":
			return fmt.Sprintf("verifDiv(verifInt(%s), verifInt(%s))", x, y), true
		case "%":
			return fmt.Sprintf("verifMod(verifInt(%s), verifInt(%s))", x, y), true
		case "==", "!=":
			return fmt.Sprintf("(verifEq(%s, %s) == %v)", x, y, e.Op == "=="), true
		case "++":
			return fmt.Sprintf("verifCat(%s, %s)", x, y), true
		}
		return g.fail("operator " + e.Op)
	case *spec.Sel:
		if id, isId := e.X.(*spec.Ident); isId {
			if _, bound := g.env[id.Name]; !bound {
				for _, imp := range g.pkg.Imports() {
					if imp.Name() == id.Name && g.pkg.Scope().Lookup(id.Name) == nil {
						isParam := false
						for _, n := range append(append([]string{}, g.ri.ParamNames...), g.ri.ResultNm...) {
							if n == id.Name {
								isParam = true
							}
						}
						if !isParam {
							return id.Name + "." + e.Name, true
						}
					}
				}
			}
		}
		x, ok := g.expr(e.X)
		if !ok {
			return "", false
		}
		return x + "." + e.Name, true
	case *spec.Index:
		x, ok := g.expr(e.X)
		if !ok {
			return "", false
		}
		i, ok := g.expr(e.I)
		if !ok {
			return "", false
		}
		return fmt.Sprintf("verifAt(%s, verifInt(%s))", x, i), true
	case *spec.Slice:
		x, ok := g.expr(e.X)
		if !ok {
			return "", false
		}
		lo, hi := "int64(0)", "int64(-1)"
		if e.Lo != nil {
			if lo, ok = g.expr(e.Lo); !ok {
				return "", false
			}
		}
		if e.Hi != nil {
			if hi, ok = g.expr(e.Hi); !ok {
				return "", false
			}
		}
		return fmt.Sprintf("verifSlice(%s, verifInt(%s), verifInt(%s))", x, lo, hi), true
	case *spec.TypeAssert:
		x, ok := g.expr(e.X)
		if !ok {
			return "", false
		}
		tn, ok := g.specType(e.T)
		if !ok {
			return g.fail("type test")
		}
		return fmt.Sprintf("verifIs[%s](%s)", tn, x), true
	case *spec.Call:
		id, ok := e.Fun.(*spec.Ident)
		if !ok {
			return g.fail("call")
		}
		args := func(i int) (string, bool) { return g.expr(e.Args[i]) }
		switch id.Name {
		case "len":
			x, ok := args(0)
			if !ok {
				return "", false
			}
			return "int64(verifLen(" + x + "))", true
		case "old", "val":
			return args(0)
		case "fresh":
			return "true", true
		case "min", "max":
			a, ok := args(0)
			if !ok {
				return "", false
			}
			b, ok := args(1)
			if !ok {
				return "", false
			}
			return fmt.Sprintf("verif%s(verifInt(%s), verifInt(%s))", strings.Title(id.Name), a, b), true
		case "ite":
			c, ok := args(0)
			if !ok {
				return "", false
			}
			a, ok := args(1)
			if !ok {
				return "", false
			}
			b, ok := args(2)
			if !ok {
				return "", false
			}
			return fmt.Sprintf("verifIte(%s, func() interface{} { return %s }, func() interface{} { return %s })", c, a, b), true
		case "isptr", "unboxptr", "unbox":
			tn, ok := g.typeName(e.Args[0])
			if !ok {
				return g.fail(id.Name)
			}
			x, ok := args(1)
			if !ok {
				return "", false
			}
			switch id.Name {
			case "isptr":
				return fmt.Sprintf("verifIs[*%s](%s)", tn, x), true
			case "unboxptr":
				return fmt.Sprintf("verifUnbox[*%s](%s)", tn, x), true
			}
			return fmt.Sprintf("verifUnbox[%s](%s)", tn, x), true
		case "hasPrefix":
			a, ok := args(0)
			if !ok {
				return "", false
			}
			b, ok := args(1)
			if !ok {
				return "", false
			}
			return fmt.Sprintf("verifHasPrefix(%s, %s)", a, b), true
		}
		sf, ok := g.e.SpecFuncs[id.Name]
		if !ok || sf.Body == nil || sf.Recursive || g.depth > 12 {
			return g.fail("spec function " + id.Name)
		}
		ne := map[string]string{}
		for i, p := range sf.Params {
			a, ok := args(i)
			if !ok {
				return "", false
			}
			ne[p.Name] = "(" + a + ")"
		}
		sub := &goTranslator{ri: g.ri, pkg: g.pkg, c: g.c, e: g.e, env: ne, depth: g.depth + 1}
		r, ok := sub.expr(sf.Body)
		if !ok {
			g.why = sub.why
			return "", false
		}
		return "(" + r + ")", true
	}
	return g.fail(fmt.Sprintf("%T", e))
}

// ReplayHelpers is appended to generated tests.
const ReplayHelpers = `
func verifInt(v interface{}) int64 {
	rv := reflect.ValueOf(v)
	switch rv.Kind() {
	case reflect.Int, reflect.Int8, reflect.Int16, reflect.Int32, reflect.Int64:
		return rv.Int()
	case reflect.Uint, reflect.Uint8, reflect.Uint16, reflect.Uint32, reflect.Uint64, reflect.Uintptr:
		return int64(rv.Uint())
	}
	panic(fmt.Sprintf("verifInt: %T", v))
}

func verifIsNum(v interface{}) bool {
	if v == nil {
		return false
	}
	switch reflect.ValueOf(v).Kind() {
	case reflect.Int, reflect.Int8, reflect.Int16, reflect.Int32, reflect.Int64, reflect.Uint, reflect.Uint8, reflect.Uint16, reflect.Uint32, reflect.Uint64, reflect.Uintptr:
		return true
	}
	return false
}

func verifBytes(v interface{}) ([]byte, bool) {
	if v == nil {
		return nil, false
	}
	rv := reflect.ValueOf(v)
	switch rv.Kind() {
	case reflect.String:
		return []byte(rv.String()), true
	case reflect.Slice, reflect.Array:
		if rv.Type().Elem().Kind() == reflect.Uint8 {
			b := make([]byte, rv.Len())
			for i := range b {
				b[i] = byte(rv.Index(i).Uint())
			}
			return b, true
		}
	}
	return nil, false
}

func verifIsNil(v interface{}) bool {
	if v == nil {
		return true
	}
	rv := reflect.ValueOf(v)
	switch rv.Kind() {
	case reflect.Ptr, reflect.Map, reflect.Chan, reflect.Func, reflect.Interface:
		return rv.IsNil()
	}
	return false
}

func verifEq(a, b interface{}) bool {
	if verifIsNum(a) && verifIsNum(b) {
		return verifInt(a) == verifInt(b)
	}
	if x, ok := verifBytes(a); ok {
		if y, ok := verifBytes(b); ok {
			return string(x) == string(y)
		}
	}
	if verifIsNil(a) || verifIsNil(b) {
		// nil slices and empty slices are identified by the model
		if x, ok := verifBytes(a); ok && len(x) == 0 && verifIsNil(b) {
			return true
		}
		if y, ok := verifBytes(b); ok && len(y) == 0 && verifIsNil(a) {
			return true
		}
		return verifIsNil(a) && verifIsNil(b)
	}
	return reflect.DeepEqual(a, b)
}

func verifLen(v interface{}) int { return reflect.ValueOf(v).Len() }

func verifAt(v interface{}, i int64) interface{} {
	rv := reflect.ValueOf(v)
	if i < 0 || i >= int64(rv.Len()) {
		return int64(0) // out-of-range reads are unspecified in the model
	}
	return rv.Index(int(i)).Interface()
}

func verifSlice(v interface{}, lo, hi int64) interface{} {
	rv := reflect.ValueOf(v)
	if hi < 0 {
		hi = int64(rv.Len())
	}
	if lo < 0 || hi > int64(rv.Len()) || lo > hi {
		return []byte{}
	}
	return rv.Slice(int(lo), int(hi)).Interface()
}

func verifCat(a, b interface{}) interface{} {
	x, _ := verifBytes(a)
	y, _ := verifBytes(b)
	return append(append([]byte{}, x...), y...)
}

func verifIte(c bool, a, b func() interface{}) interface{} {
	if c {
		return a()
	}
	return b()
}

func verifDiv(a, b int64) int64 {
	if b == 0 {
		return 0
	}
	q := a / b
	if a%b != 0 && (a < 0) != (b < 0) {
		q--
	}
	return q
}

func verifMod(a, b int64) int64 { return a - verifDiv(a, b)*b }

func verifMin(a, b int64) int64 {
	if a < b {
		return a
	}
	return b
}

func verifMax(a, b int64) int64 {
	if a > b {
		return a
	}
	return b
}

func verifHasPrefix(a, b interface{}) bool {
	x, _ := verifBytes(a)
	y, _ := verifBytes(b)
	return len(x) >= len(y) && string(x[:len(y)]) == string(y)
}

func verifIs[T any](v interface{}) bool { _, ok := v.(T); return ok }

func verifUnbox[T any](v interface{}) T { x, _ := v.(T); return x }
`
