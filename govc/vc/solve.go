package vc

import (
	"bytes"
	"context"
	"crypto/sha256"
	"fmt"
	"os"
	"os/exec"
	"path/filepath"
	"regexp"
	"sort"
	"strings"
	"sync"
	"time"

	"govc/smt"
)

type QueryResult struct {
	Status  string  `json:"status"` // unsat | sat | unknown | timeout | error
	Backend string  `json:"backend"`
	Secs    float64 `json:"secs"`
	Model   string  `json:"model,omitempty"`
	Raw     string  `json:"raw,omitempty"`
	File    string  `json:"file,omitempty"`
}

type Solver struct {
	Name string
	Cmd  []string
}

var DefaultSolvers = []Solver{
	{"z3-5.1.0", []string{"z3-new", "-smt2"}},
	{"z3-4.8.12", []string{"z3", "-smt2"}},
	{"cvc5-1.0", []string{"cvc5", "--lang=smt2", "--strings-exp", "--produce-models", "--fmf-fun"}},
	{"cvc5-1.0-enum", []string{"cvc5", "--lang=smt2", "--strings-exp", "--produce-models", "--enum-inst"}},
}

func runOne(ctx context.Context, sv Solver, file string, timeout time.Duration) QueryResult {
	start := time.Now()
	cctx, cancel := context.WithTimeout(ctx, timeout)
	defer cancel()
	args := append([]string{}, sv.Cmd[1:]...)
	switch {
	case strings.HasPrefix(sv.Name, "z3"):
		args = append(args, fmt.Sprintf("-T:%d", int(timeout.Seconds())+1))
	case strings.HasPrefix(sv.Name, "cvc5"):
		args = append(args, fmt.Sprintf("--tlimit=%d", int(timeout.Milliseconds())))
	}
	args = append(args, file)
	cmd := exec.CommandContext(cctx, sv.Cmd[0], args...)
	var out bytes.Buffer
	cmd.Stdout = &out
	cmd.Stderr = &out
	err := cmd.Run()
	secs := time.Since(start).Seconds()
	text := out.String()
	first := strings.TrimSpace(strings.SplitN(strings.TrimSpace(text), "\n", 2)[0])
	res := QueryResult{Backend: sv.Name, Secs: secs}
	switch first {
	case "unsat":
		res.Status = "unsat"
	case "sat":
		res.Status = "sat"
		if i := strings.Index(text, "\n"); i >= 0 {
			res.Model = strings.TrimSpace(text[i+1:])
		}
	case "unknown":
		res.Status = "unknown"
	case "timeout":
		res.Status = "timeout"
	default:
		if cctx.Err() != nil || ctx.Err() != nil {
			res.Status = "timeout"
		} else {
			res.Status = "error"
			if err != nil && len(text) == 0 {
				text = err.Error()
			}
			if len(text) > 600 {
				text = text[:600]
			}
			res.Raw = text
		}
	}
	return res
}

// Race runs all solvers; the first sat/unsat answer wins.
func Race(file string, timeout time.Duration, solvers []Solver, all bool) (QueryResult, []QueryResult) {
	ctx, cancel := context.WithCancel(context.Background())
	defer cancel()
	ch := make(chan QueryResult, len(solvers))
	for _, sv := range solvers {
		go func(sv Solver) { ch <- runOne(ctx, sv, file, timeout) }(sv)
	}
	var results []QueryResult
	var best *QueryResult
	for range solvers {
		r := <-ch
		results = append(results, r)
		if (r.Status == "unsat" || r.Status == "sat") && best == nil {
			rr := r
			best = &rr
			if !all {
				cancel()
				break
			}
		}
	}
	if best != nil {
		return *best, results
	}
	// prefer unknown over timeout over error for reporting
	sort.Slice(results, func(i, j int) bool { return results[i].Status < results[j].Status })
	r := results[0]
	for _, x := range results {
		if x.Status == "unknown" {
			r = x
		}
	}
	var raws []string
	for _, x := range results {
		raws = append(raws, x.Backend+":"+x.Status+" "+x.Raw)
	}
	r.Raw = strings.Join(raws, " | ")
	return r, results
}

type OblResult struct {
	Name           string        `json:"name"`
	Func           string        `json:"func"`
	Kind           string        `json:"kind"`
	Props          []string      `json:"props"`
	Status         string        `json:"status"` // proved | failed | undecided
	Backend        string        `json:"backend"`
	Secs           float64       `json:"secs"`
	Queries        int           `json:"queries"`
	Pos            string        `json:"pos,omitempty"`
	Src            string        `json:"src,omitempty"`
	Detail         string        `json:"detail,omitempty"`
	Model          string        `json:"model,omitempty"`
	File           string        `json:"file,omitempty"`
	Expect         string        `json:"expect,omitempty"`
	Results        []QueryResult `json:"-"`
	ReplayTest     string        `json:"replay_test,omitempty"`      // generated Go test (full: panic + clause)
	ReplayTestLite string        `json:"replay_test_lite,omitempty"` // generated Go test (panic only)
	ReplayPkg      string        `json:"replay_pkg,omitempty"`       // package directory relative to the repository root
	ReplayNote     string        `json:"replay_note,omitempty"`
	FailedObl      *Obligation   `json:"-"`
}

type queryJob struct {
	obl    *Obligation
	file   string
	script string
	hash   string
	lite   string
	ext    string
	slice  string
}

var nameSan = regexp.MustCompile(`[^A-Za-z0-9_.#:@-]+`)

// Discharge solves all obligations, grouping path-queries by obligation name.
func (e *Engine) Discharge(obls []*Obligation, outDir string, timeout time.Duration, jobs int, all bool, extraDefs func() []string, axioms []*smt.Term) []*OblResult {
	os.MkdirAll(outDir, 0o755)
	obls = splitGoals(obls)
	byName := map[string][]*Obligation{}
	var order []string
	for _, o := range obls {
		if _, ok := byName[o.Name]; !ok {
			order = append(order, o.Name)
		}
		byName[o.Name] = append(byName[o.Name], o)
	}
	_ = extraDefs
	defFuns := e.DefFuns()
	type qres struct {
		QueryResult
		job *queryJob
	}
	var jobsList []*queryJob
	cache := map[string]*queryJob{}
	jobOf := map[*Obligation]*queryJob{}
	for _, name := range order {
		for i, o := range byName[name] {
			if o.Structu {
				continue
			}
			if o.Goal.IsTrue() && o.Expect != "sat" {
				continue
			}
			build := func(hyps []*smt.Term, goal *smt.Term) *smt.Script {
				sc := &smt.Script{Logic: "ALL", DefFuns: defFuns}
				sc.Asserts = append(sc.Asserts, hyps...)
				// only axioms about symbols that occur in this obligation
				used := map[string]bool{}
				for _, h := range hyps {
					for k := range AxiomSymbols(h) {
						used[k] = true
					}
				}
				for k := range AxiomSymbols(goal) {
					used[k] = true
				}
				for _, ax := range axioms {
					rel := false
					for k := range AxiomSymbols(ax) {
						if used[k] {
							rel = true
							break
						}
					}
					if !rel {
						continue
					}
					// The generator does the quantifier work where it can: an axiom whose pattern is f(x1..xn) over
					// exactly its bound variables is replaced by its instances at the ground f-terms of the query.
					if insts, ok := groundInstances(ax, append(append([]*smt.Term{}, hyps...), goal)); ok {
						sc.Axioms = append(sc.Axioms, insts...)
					} else {
						sc.Axioms = append(sc.Axioms, ax)
					}
				}
				g := goal
				if o.Expect == "sat" {
					sc.Asserts = append(sc.Asserts, goal)
				} else {
					// a universally quantified goal is proved for fresh constants (skolemised by the generator, so
					// that the instantiation below sees the goal's index terms as ground terms)
					g = skolemize(goal)
					sc.Asserts = append(sc.Asserts, smt.Not(g))
				}
				// generator-side instantiation of quantified hypotheses at the ground terms of the query (the
				// quantified hypotheses are kept as well)
				sc.Asserts = append(sc.Asserts, instantiateHyps(hyps, g)...)
				for _, mt := range sortedKeys(o.ModelTerms) {
					sc.GetVals = append(sc.GetVals, o.ModelTerms[mt])
				}
				return sc
			}
			sc := build(o.Hyps, o.Goal)
			sliceText := ""
			// a smaller query without the allocation facts is tried first: unsat from fewer hypotheses is still unsat
			var lite []*smt.Term
			if o.Expect != "sat" && !mentionsAlloc(o.Goal) {
				for _, h := range o.Hyps {
					if !mentionsAlloc(h) {
						lite = append(lite, h)
					}
				}
			}
			liteText := ""
			if len(lite) > 0 && len(lite) < len(o.Hyps) {
				liteText = build(lite, o.Goal).Render()
			}
			// an even smaller query: only the hypotheses in the goal's cone of influence (sharing, transitively, a
			// heap, function or non-reference variable with it)
			if o.Expect != "sat" {
				if sl := sliceHyps(o.Hyps, o.Goal); len(sl) > 0 && len(sl)+2 < len(o.Hyps) {
					sliceText = build(sl, o.Goal).Render()
				}
			}
			// sequence equalities in the goal restated element-wise (extensionality): tried when the direct query
			// is not decided
			extText := ""
			if o.Expect != "sat" {
				if eg, ok := extGoal(o.Goal); ok {
					extText = build(o.Hyps, eg).Render()
				}
			}
			text := sc.Render()
			h := fmt.Sprintf("%x", sha256.Sum256([]byte(text)))[:16]
			if j, ok := cache[h]; ok {
				jobOf[o] = j
				continue
			}
			fn := nameSan.ReplaceAllString(name, "_")
			if len(fn) > 100 {
				fn = fn[:100]
			}
			file := filepath.Join(outDir, fmt.Sprintf("%s.%s.p%d.smt2", fn, h[:8], i))
			j := &queryJob{obl: o, file: file, script: "; obligation " + name + "\n; " + o.Src + "\n" + text, hash: h}
			if liteText != "" {
				j.lite = "; obligation " + name + " (without allocation facts)\n" + liteText
			}
			if extText != "" {
				j.ext = "; obligation " + name + " (sequence equalities element-wise)\n" + extText
			}
			if sliceText != "" {
				j.slice = "; obligation " + name + " (hypotheses in the goal's cone of influence only)\n" + sliceText
			}
			cache[h] = j
			jobOf[o] = j
			jobsList = append(jobsList, j)
		}
	}
	results := map[*queryJob]QueryResult{}
	var mu sync.Mutex
	var wg sync.WaitGroup
	sem := make(chan struct{}, jobs)
	for _, j := range jobsList {
		wg.Add(1)
		sem <- struct{}{}
		go func(j *queryJob) {
			defer wg.Done()
			defer func() { <-sem }()
			if err := os.WriteFile(j.file, []byte(j.script), 0o644); err != nil {
				mu.Lock()
				results[j] = QueryResult{Status: "error", Raw: err.Error()}
				mu.Unlock()
				return
			}
			if j.slice != "" {
				sf := strings.TrimSuffix(j.file, ".smt2") + ".slice.smt2"
				if err := os.WriteFile(sf, []byte(j.slice), 0o644); err == nil {
					st := timeout / 3
					if st < 4*time.Second {
						st = 4 * time.Second
					}
					if sr, _ := Race(sf, st, DefaultSolvers, false); sr.Status == "unsat" {
						sr.File = sf
						sr.Backend += "(slice)"
						if all {
							sr = crossCheck(j, sr)
						}
						mu.Lock()
						results[j] = sr
						mu.Unlock()
						return
					}
				}
			}
			if j.lite != "" {
				lf := strings.TrimSuffix(j.file, ".smt2") + ".lite.smt2"
				if err := os.WriteFile(lf, []byte(j.lite), 0o644); err == nil {
					lt := timeout / 2
					if lt < 5*time.Second {
						lt = 5 * time.Second
					}
					if lr, _ := Race(lf, lt, DefaultSolvers, false); lr.Status == "unsat" {
						lr.File = lf
						lr.Backend += "(lite)"
						if all {
							lr = crossCheck(j, lr)
						}
						mu.Lock()
						results[j] = lr
						mu.Unlock()
						return
					}
				}
			}
			qt := timeout
			if j.obl.Expect == "sat" && qt > 4*time.Second {
				qt = 4 * time.Second // vacuity guards: a quick satisfiability probe is enough
			}
			if j.ext != "" && !all && qt > 6*time.Second {
				// an element-wise variant exists: give the direct query a short first try, then the variant
				if r0, _ := Race(j.file, 5*time.Second, DefaultSolvers, false); r0.Status == "unsat" || r0.Status == "sat" {
					r0.File = j.file
					mu.Lock()
					results[j] = r0
					mu.Unlock()
					return
				}
				ef := strings.TrimSuffix(j.file, ".smt2") + ".ext.smt2"
				if err := os.WriteFile(ef, []byte(j.ext), 0o644); err == nil {
					if er, _ := Race(ef, timeout, DefaultSolvers, false); er.Status == "unsat" {
						er.File = ef
						er.Backend += "(ext)"
						mu.Lock()
						results[j] = er
						mu.Unlock()
						return
					}
				}
			}
			r, allr := Race(j.file, qt, DefaultSolvers, all && j.obl.Expect != "sat")
			if all {
				// cross-solver contradiction check
				hasSat, hasUnsat := false, false
				for _, x := range allr {
					if x.Status == "sat" {
						hasSat = true
					}
					if x.Status == "unsat" {
						hasUnsat = true
					}
				}
				if hasSat && hasUnsat {
					r = QueryResult{Status: "error", Raw: "solvers disagree (sat vs unsat)", Backend: "all"}
				}
			}
			r.File = j.file
			if r.Status != "unsat" && r.Status != "sat" && j.ext != "" {
				ef := strings.TrimSuffix(j.file, ".smt2") + ".ext.smt2"
				if err := os.WriteFile(ef, []byte(j.ext), 0o644); err == nil {
					if er, _ := Race(ef, timeout, DefaultSolvers, false); er.Status == "unsat" {
						er.File = ef
						er.Backend += "(ext)"
						er.Secs += r.Secs
						r = er
					}
				}
			}
			mu.Lock()
			results[j] = r
			mu.Unlock()
		}(j)
	}
	wg.Wait()
	// second chance, one query at a time with a longer limit: keeps a loaded machine from turning a provable
	// obligation into a timeout
	retries := 0
	for _, j := range jobsList {
		r := results[j]
		if r.Status == "unsat" || r.Status == "sat" || j.obl.Expect == "sat" {
			continue
		}
		retries++
		if retries > 4 {
			break // bounded: a tree that really breaks many obligations must not take forever to say so
		}
		r2, _ := Race(j.file, 2*timeout, DefaultSolvers, false)
		r2.File = j.file
		r2.Secs += r.Secs
		if r2.Status == "unsat" || r2.Status == "sat" {
			results[j] = r2
		}
	}
	var out []*OblResult
	for _, name := range order {
		os := byName[name]
		o0 := os[0]
		r := &OblResult{Name: name, Func: o0.Func, Kind: o0.Kind, Props: o0.Props, Pos: o0.Pos, Src: o0.Src, Queries: len(os), Status: "proved", Expect: o0.Expect}
		backends := map[string]bool{}
		if o0.Expect == "sat" {
			// cover: at least one query must be sat
			r.Status = "undecided"
			for _, o := range os {
				j := jobOf[o]
				if j == nil {
					continue
				}
				q := results[j]
				r.Secs += q.Secs
				if q.Status == "sat" {
					r.Status = "proved"
					backends[q.Backend] = true
					break
				}
				if q.Status == "unsat" && r.Status != "proved" {
					r.Status = "failed"
					r.Detail = "cover query is unsatisfiable (vacuous precondition or unreachable return)"
					r.File = q.File
				}
				if q.Status != "unsat" && q.Status != "sat" {
					// the solvers could not decide satisfiability: not evidence of vacuity
					r.Status = "proved"
					r.Detail = "satisfiability not decided by the solvers (" + q.Status + "); no evidence of vacuity"
					backends["undecided-cover"] = true
				}
			}
		} else {
			for _, o := range os {
				if o.Structu {
					backends["structural"] = true
					if !o.StructOK {
						r.Status = "failed"
						r.Detail = o.StructMsg
					}
					continue
				}
				j := jobOf[o]
				if j == nil {
					backends["simplifier"] = true
					continue
				}
				q := results[j]
				r.Secs += q.Secs
				switch q.Status {
				case "unsat":
					backends[q.Backend] = true
				case "sat":
					if r.Status != "failed" {
						r.Status = "failed"
						r.Model = q.Model
						r.FailedObl = o
						r.File = q.File
						r.Detail = "counterexample from " + q.Backend
						if o.Pos != "" {
							r.Pos = o.Pos
						}
					}
				default:
					if r.Status == "proved" {
						r.Status = "undecided"
						r.File = q.File
						r.Detail = q.Status + ": " + q.Raw
					}
				}
			}
		}
		var bs []string
		for b := range backends {
			bs = append(bs, b)
		}
		sort.Strings(bs)
		r.Backend = strings.Join(bs, ",")
		out = append(out, r)
	}
	return out
}

func sortedKeys(m map[string]*smt.Term) []string {
	var ks []string
	for k := range m {
		ks = append(ks, k)
	}
	sort.Strings(ks)
	return ks
}

// groundInstances instantiates a universally quantified axiom with a simple pattern at every matching ground
// application occurring in the given terms.
func groundInstances(ax *smt.Term, in []*smt.Term) ([]*smt.Term, bool) {
	if ax.Op != "forall" || len(ax.Pats) != 1 || len(ax.Pats[0]) != 1 {
		return nil, false
	}
	pat := ax.Pats[0][0]
	if pat.Op != "app" || len(pat.Args) != len(ax.Quant) {
		return nil, false
	}
	pos := map[*smt.Term]int{}
	for i, a := range pat.Args {
		found := false
		for _, q := range ax.Quant {
			if a == q {
				found = true
			}
		}
		if !found {
			return nil, false
		}
		if _, dup := pos[a]; dup {
			return nil, false
		}
		pos[a] = i
	}
	bound := map[*smt.Term]bool{}
	var collectBound func(u *smt.Term)
	seenB := map[int]bool{}
	collectBound = func(u *smt.Term) {
		if seenB[u.ID()] {
			return
		}
		seenB[u.ID()] = true
		for _, q := range u.Quant {
			bound[q] = true
		}
		for _, a := range u.Args {
			collectBound(a)
		}
	}
	for _, t := range in {
		collectBound(t)
	}
	var insts []*smt.Term
	done := map[int]bool{}
	seen := map[int]bool{}
	var walk func(u *smt.Term)
	walk = func(u *smt.Term) {
		if seen[u.ID()] {
			return
		}
		seen[u.ID()] = true
		for _, a := range u.Args {
			walk(a)
		}
		if u.Op == "app" && u.Name == pat.Name && len(u.Args) == len(pat.Args) && !done[u.ID()] && !mentions(u, bound) {
			done[u.ID()] = true
			m := map[*smt.Term]*smt.Term{}
			for q, i := range pos {
				m[q] = u.Args[i]
			}
			insts = append(insts, smt.Subst(ax.Args[0], m))
		}
	}
	for _, t := range in {
		walk(t)
	}
	// one more round for terms introduced by the instances themselves
	n0 := len(insts)
	for _, t := range insts[:n0] {
		walk(t)
	}
	return insts, true
}

// instantiateHyps: for every top-level universally quantified conjunct of a hypothesis, find trigger terms
// (select / seq.nth / uninterpreted applications whose arguments include every bound variable directly) and
// instantiate the body at each matching ground term of the query. One round; sound (instances of hypotheses).
func instantiateHyps(hyps []*smt.Term, goal *smt.Term) []*smt.Term {
	var foralls []*smt.Term
	var collect func(t *smt.Term)
	collect = func(t *smt.Term) {
		switch t.Op {
		case "and":
			for _, a := range t.Args {
				collect(a)
			}
		case "forall":
			foralls = append(foralls, t)
		}
	}
	for _, h := range hyps {
		collect(h)
	}
	if len(foralls) == 0 {
		return nil
	}
	// ground terms of the query indexed by head
	bound := map[*smt.Term]bool{}
	ground := map[string][]*smt.Term{}
	seen := map[int]bool{}
	var walkB func(t *smt.Term)
	walkB = func(t *smt.Term) {
		if seen[t.ID()] {
			return
		}
		seen[t.ID()] = true
		for _, q := range t.Quant {
			bound[q] = true
		}
		for _, a := range t.Args {
			walkB(a)
		}
	}
	all := append(append([]*smt.Term{}, hyps...), goal)
	for _, t := range all {
		walkB(t)
	}
	head := func(t *smt.Term) string {
		switch t.Op {
		case "app":
			return "app:" + t.Name
		case "select", "seq.nth":
			return t.Op
		}
		return ""
	}
	seen = map[int]bool{}
	var walkG func(t *smt.Term)
	walkG = func(t *smt.Term) {
		if seen[t.ID()] {
			return
		}
		seen[t.ID()] = true
		for _, a := range t.Args {
			walkG(a)
		}
		if h := head(t); h != "" && !mentions(t, bound) {
			ground[h] = append(ground[h], t)
		}
	}
	for _, t := range all {
		walkG(t)
	}
	// offsets of the slices taken in this query
	var offsets []*smt.Term
	offSeen := map[int]bool{}
	seen = map[int]bool{}
	var walkO func(t *smt.Term)
	walkO = func(t *smt.Term) {
		if seen[t.ID()] {
			return
		}
		seen[t.ID()] = true
		for _, a := range t.Args {
			walkO(a)
		}
		if t.Op == "seq.extract" && len(t.Args) == 3 && !mentions(t.Args[1], bound) {
			o := t.Args[1]
			if !(o.IsInt() && o.Int.Sign() == 0) && !offSeen[o.ID()] && len(offsets) < 4 {
				offSeen[o.ID()] = true
				offsets = append(offsets, o)
			}
		}
	}
	for _, t := range all {
		walkO(t)
	}
	var out []*smt.Term
	added := map[int]bool{}
	for _, fa := range foralls {
		if len(fa.Quant) > 2 {
			continue
		}
		qs := map[*smt.Term]bool{}
		for _, q := range fa.Quant {
			qs[q] = true
		}
		// triggers
		var trigs []*smt.Term
		tseen := map[int]bool{}
		var walkT func(t *smt.Term)
		walkT = func(t *smt.Term) {
			if tseen[t.ID()] {
				return
			}
			tseen[t.ID()] = true
			if t.Op == "forall" || t.Op == "exists" {
				return
			}
			for _, a := range t.Args {
				walkT(a)
			}
			if head(t) == "" {
				return
			}
			direct := map[*smt.Term]bool{}
			okArgs := true
			for _, a := range t.Args {
				if qs[a] {
					direct[a] = true
				} else if mentions(a, qs) {
					okArgs = false
				}
			}
			if okArgs && len(direct) == len(qs) {
				trigs = append(trigs, t)
			}
		}
		walkT(fa.Args[0])
		n := 0
		for _, tr := range trigs {
			for _, g := range ground[head(tr)] {
				if len(g.Args) != len(tr.Args) {
					continue
				}
				m := map[*smt.Term]*smt.Term{}
				match := true
				for i, a := range tr.Args {
					if qs[a] {
						if prev, ok := m[a]; ok && prev != g.Args[i] {
							match = false
						}
						if a.Sort != g.Args[i].Sort {
							match = false
						}
						m[a] = g.Args[i]
					} else if a != g.Args[i] {
						// an element fact about one sequence is also instantiated at the index terms used with
						// other sequences of the same sort (slices of it, appends to it)
						if !((tr.Op == "seq.nth" || tr.Op == "select") && i == 0 && a.Sort == g.Args[i].Sort) {
							match = false
						}
					}
				}
				if !match {
					continue
				}
				inst := smt.Subst(fa.Args[0], m)
				if !added[inst.ID()] && !inst.IsTrue() {
					added[inst.ID()] = true
					out = append(out, inst)
					n++
				}
				// the element at index g of a slice s[off:] is the element at off+g of s
				if tr.Op == "seq.nth" && len(tr.Args) == 2 && qs[tr.Args[1]] && tr.Args[0] != g.Args[0] {
					for _, off := range offsets {
						m2 := map[*smt.Term]*smt.Term{}
						for k, v := range m {
							m2[k] = v
						}
						m2[tr.Args[1]] = smt.Add(g.Args[1], off)
						inst2 := smt.Subst(fa.Args[0], m2)
						if !added[inst2.ID()] && !inst2.IsTrue() {
							added[inst2.ID()] = true
							out = append(out, inst2)
							n++
						}
					}
				}
				if n > 40 {
					break
				}
			}
		}
	}
	return out
}

// skolemize replaces the universally quantified variables in positive position of a goal (top level, under the
// consequent of implications and under conjunction) by fresh constants.
func skolemize(t *smt.Term) *smt.Term {
	switch t.Op {
	case "forall":
		m := map[*smt.Term]*smt.Term{}
		for _, q := range t.Quant {
			m[q] = smt.Fresh("sk$"+strings.TrimLeft(q.Name, "$"), q.Sort)
		}
		return skolemize(smt.Subst(t.Args[0], m))
	case "=>":
		return smt.Implies(t.Args[0], skolemize(t.Args[1]))
	case "and":
		var as []*smt.Term
		for _, a := range t.Args {
			as = append(as, skolemize(a))
		}
		return smt.And(as...)
	}
	return t
}

// crossCheck (thorough tier): an obligation proved from a subset of its hypotheses is additionally sent, in full, to
// every solver; an answer `sat` from any of them contradicts the proof and is reported as an engine fault.
func crossCheck(j *queryJob, proved QueryResult) QueryResult {
	_, allr := Race(j.file, 10*time.Second, DefaultSolvers, true)
	for _, r := range allr {
		if r.Status == "sat" {
			return QueryResult{Status: "error", Raw: "solvers disagree: " + proved.Backend + " proved the sliced query, " + r.Backend + " answers sat on the full query", Backend: "all", File: j.file}
		}
	}
	proved.Backend += "+xcheck"
	return proved
}

// sliceHyps keeps the hypotheses in the cone of influence of the goal: a hypothesis is kept when it shares a
// symbol (heap array, uninterpreted function, or a variable that is not a reference / interface value) with the
// goal or with a hypothesis already kept. Unsat from a subset of the hypotheses is unsat.
func sliceHyps(hyps []*smt.Term, goal *smt.Term) []*smt.Term {
	syms := func(t *smt.Term) map[string]bool {
		out := map[string]bool{}
		seen := map[int]bool{}
		bound := map[*smt.Term]bool{}
		var walk func(u *smt.Term)
		walk = func(u *smt.Term) {
			if seen[u.ID()] {
				return
			}
			seen[u.ID()] = true
			for _, q := range u.Quant {
				bound[q] = true
			}
			switch u.Op {
			case "app":
				if u.Name != "typeof" && u.Name != "root$ref" && u.Name != "subtag$ref" && !strings.HasPrefix(u.Name, "sub$") && !strings.HasPrefix(u.Name, "parent$") && !strings.HasPrefix(u.Name, "unbox$") && !strings.HasPrefix(u.Name, "box$") {
					out["f:"+u.Name] = true
				}
			case "var":
				if !bound[u] && u.Sort != smt.Ref && u.Sort != smt.Iface && u.Sort != smt.Fn && !strings.HasPrefix(u.Name, "$alloc") {
					out["v:"+u.Name] = true
				}
			}
			for _, a := range u.Args {
				walk(a)
			}
		}
		walk(t)
		return out
	}
	cone := syms(goal)
	hs := make([]map[string]bool, len(hyps))
	for i, h := range hyps {
		hs[i] = syms(h)
	}
	kept := make([]bool, len(hyps))
	for changed := true; changed; {
		changed = false
		for i := range hyps {
			if kept[i] {
				continue
			}
			hit := len(hs[i]) == 0 // pure facts about references (nil checks, type tags): cheap, keep
			for k := range hs[i] {
				if cone[k] {
					hit = true
					break
				}
			}
			if hit {
				kept[i] = true
				changed = true
				for k := range hs[i] {
					cone[k] = true
				}
			}
		}
	}
	var out []*smt.Term
	for i, h := range hyps {
		if kept[i] {
			out = append(out, h)
		}
	}
	return out
}

// extGoal restates sequence equalities in positive position of a goal by extensionality:
// A = B  becomes  len A = len B and forall i in range: A[i] = B[i].
func extGoal(t *smt.Term) (*smt.Term, bool) {
	switch t.Op {
	case "forall":
		b, ok := extGoal(t.Args[0])
		if !ok {
			return t, false
		}
		return smt.Forall(t.Quant, b), true
	case "=>":
		b, ok := extGoal(t.Args[1])
		if !ok {
			return t, false
		}
		return smt.Implies(t.Args[0], b), true
	case "and":
		any := false
		var as []*smt.Term
		for _, a := range t.Args {
			b, ok := extGoal(a)
			any = any || ok
			as = append(as, b)
		}
		if !any {
			return t, false
		}
		return smt.And(as...), true
	case "=":
		if len(t.Args) == 2 && t.Args[0].Sort.Kind == smt.KSeq {
			a, b := t.Args[0], t.Args[1]
			i := smt.Fresh("ext$i", smt.Int)
			body := smt.Implies(smt.And(smt.Le(smt.IntC(0), i), smt.Lt(i, smt.SeqLen(a))), smt.Eq(smt.SeqNth(a, i), smt.SeqNth(b, i)))
			return smt.And(smt.Eq(smt.SeqLen(a), smt.SeqLen(b)), smt.Forall([]*smt.Term{i}, body)), true
		}
	}
	return t, false
}

func mentionsAlloc(t *smt.Term) bool {
	seen := map[int]bool{}
	var walk func(u *smt.Term) bool
	walk = func(u *smt.Term) bool {
		if seen[u.ID()] {
			return false
		}
		seen[u.ID()] = true
		if u.Op == "var" && strings.HasPrefix(u.Name, "$alloc") {
			return true
		}
		if u.Op == "app" && u.Name == "root$ref" {
			return true
		}
		for _, a := range u.Args {
			if walk(a) {
				return true
			}
		}
		return false
	}
	return walk(t)
}

// splitGoals turns an obligation whose goal is a conjunction (possibly under implications or a universal
// quantifier) into one query per conjunct, all under the same obligation name: each must be unsat.
func splitGoals(obls []*Obligation) []*Obligation {
	var out []*Obligation
	for _, o := range obls {
		if o.Structu || o.Expect == "sat" || o.Goal == nil {
			out = append(out, o)
			continue
		}
		parts := conjuncts(o.Goal, 0)
		if len(parts) <= 1 || len(parts) > 24 {
			out = append(out, o)
			continue
		}
		for _, p := range parts {
			c := *o
			c.Goal = p
			out = append(out, &c)
		}
	}
	return out
}

func conjuncts(t *smt.Term, depth int) []*smt.Term {
	if depth > 6 {
		return []*smt.Term{t}
	}
	switch t.Op {
	case "and":
		var out []*smt.Term
		for _, a := range t.Args {
			out = append(out, conjuncts(a, depth+1)...)
		}
		return out
	case "=>":
		var out []*smt.Term
		for _, c := range conjuncts(t.Args[1], depth+1) {
			out = append(out, smt.Implies(t.Args[0], c))
		}
		return out
	case "forall":
		var out []*smt.Term
		for _, c := range conjuncts(t.Args[0], depth+1) {
			out = append(out, smt.Forall(t.Quant, c))
		}
		return out
	}
	return []*smt.Term{t}
}
