package vc

import (
	"fmt"
	"go/token"
	"go/types"
	"sort"
	"strings"

	"golang.org/x/tools/go/ssa"

	"govc/smt"
	"govc/spec"
)

// Obligation: Hyps /\ not Goal must be unsat.
type Obligation struct {
	Name       string // stable name: pkg.func#kind:label
	Func       string
	Kind       string
	Props      []string
	Hyps       []*smt.Term
	Goal       *smt.Term
	Pos        string
	Path       int
	Defs       []string
	Expect     string // "unsat" (default) or "sat" (cover)
	Src        string
	Structu    bool // discharged structurally (no SMT)
	StructOK   bool
	StructMsg  string
	ModelTerms map[string]*smt.Term // named terms to extract from a model
	Contract   *Contract
	Clause     spec.Expr
	Replay     *ReplayInfo
}

type loopInfo struct {
	header        *ssa.BasicBlock
	body          map[*ssa.BasicBlock]bool
	ordinal       int
	cells         map[*ssa.Alloc]bool
	heaps         map[string]bool
	allHeap       bool
	spec          *spec.LoopSpec
	allocStores   map[string][]*ssa.Alloc // heap -> struct-typed local allocs whose field is stored (keyed havoc)
	calls         []*ssa.CallCommon       // contract calls whose assigns are resolved at havoc time
	ptrStores     map[string][]ssa.Value  // heap -> pointer values (loads of cells) whose field is stored
	keyCheckLater bool                    // havocLoop itself checks that keyed targets do not read heaps the loop writes
	mapStores     []ssa.Value             // map operands of MapUpdate/delete in the loop (keyed havoc when evaluable at the header)
}

type Exec struct {
	E            *Engine
	stackStructs []stackStruct // struct locals whose address does not escape
	fn           *ssa.Function
	c            *Contract
	obls         []*Obligation
	wrote        map[string]bool
	entryHeap    map[string]*smt.Term
	entryPC      []*smt.Term
	epoch        string
	loops        map[*ssa.BasicBlock]*loopInfo
	paths        int
	maxPaths     int
	unsup        []string
	params       map[string]SVal // contract param name -> entry value
	counters     map[string]int
	inlineDepth  int
	retHandler   func(s *State, results []Val) // non-nil while inlining
	curInstr     ssa.Instruction
	forks        []fork
	curStop      *ssa.BasicBlock
	curOut       *[]arrival
	pdoms        map[*ssa.Function]map[*ssa.BasicBlock]*ssa.BasicBlock
	noMerge      bool
	mergeAfter   int
	havocKeep    map[string]bool // write-restricted heap entries the call being havocked cannot change
	cuts         map[ssa.Instruction]*spec.CutSpec
	cutDone      map[*spec.CutSpec]bool
	wholeFn      *loopInfo
	forkCount    int
	pkgShort     string
	isInit       bool
	returns      int
}

func (x *Exec) unsupported(format string, args ...any) {
	msg := fmt.Sprintf(format, args...)
	pos := ""
	if x.curInstr != nil && x.curInstr.Pos().IsValid() {
		p := x.E.Fset.Position(x.curInstr.Pos())
		pos = fmt.Sprintf(" at %s:%d", shortFile(p.Filename), p.Line)
	}
	x.unsup = append(x.unsup, msg+pos)
}

func shortFile(f string) string {
	if i := strings.LastIndex(f, "/pkg/"); i >= 0 {
		return f[i+1:]
	}
	if i := strings.LastIndex(f, "/"); i >= 0 {
		return f[i+1:]
	}
	return f
}

func (x *Exec) ordinal(kind string) int {
	x.counters[kind]++
	return x.counters[kind]
}

func (x *Exec) posOf(in ssa.Instruction) string {
	if in == nil || !in.Pos().IsValid() {
		return ""
	}
	p := x.E.Fset.Position(in.Pos())
	return fmt.Sprintf("%s:%d", shortFile(p.Filename), p.Line)
}

func funcDisplayName(fn *ssa.Function) string {
	s := fn.RelString(fn.Pkg.Pkg)
	return fn.Pkg.Pkg.Name() + "." + s
}

// instrOrdinal gives a stable-ish ordinal of an instruction among instructions of the same kind in the function.
func (x *Exec) instrLabel(in ssa.Instruction, kind string) string {
	n := 0
	for _, b := range x.fn.Blocks {
		for _, i := range b.Instrs {
			if sameKind(i, kind) {
				n++
			}
			if i == in {
				return fmt.Sprintf("%s@%d", kind, n)
			}
		}
	}
	// inlined function instruction
	return fmt.Sprintf("%s@inl%s", kind, x.posOf(in))
}

func sameKind(i ssa.Instruction, kind string) bool {
	switch kind {
	case "idx":
		switch i.(type) {
		case *ssa.IndexAddr, *ssa.Index:
			return true
		}
	case "slice":
		_, ok := i.(*ssa.Slice)
		return ok
	case "nil":
		switch i.(type) {
		case *ssa.FieldAddr, *ssa.UnOp, *ssa.Store:
			return true
		}
	case "div0":
		_, ok := i.(*ssa.BinOp)
		return ok
	case "conv":
		_, ok := i.(*ssa.SliceToArrayPointer)
		return ok
	case "assert-type":
		_, ok := i.(*ssa.TypeAssert)
		return ok
	case "panic":
		_, ok := i.(*ssa.Panic)
		return ok
	case "pre", "call":
		switch i.(type) {
		case *ssa.Call, *ssa.Defer, *ssa.Go:
			return true
		}
	case "mapw":
		_, ok := i.(*ssa.MapUpdate)
		return ok
	}
	return false
}

func (x *Exec) addObl(s *State, kind, label string, goal *smt.Term, props []string, src string) {
	if kind == "pre" && x.c != nil {
		for _, h := range x.c.Hints {
			if h == "callee-preconditions-assumed" {
				// abstracted execution of a function whose callees cannot carry an invariant across it (e.g. an event
				// loop around trusted, unrestricted callees): call-site preconditions are assumed and reported as such
				x.E.Note("%s: call-site preconditions of callees are ASSUMED, not checked (hint callee-preconditions-assumed)", funcDisplayName(x.fn))
				return
			}
		}
	}
	if goal.IsTrue() {
		// trivially discharged by simplification; still counted
	}
	name := fmt.Sprintf("%s#%s:%s", funcDisplayName(x.fn), kind, label)
	o := &Obligation{Name: name, Func: funcDisplayName(x.fn), Kind: kind, Props: props, Goal: goal,
		Hyps: append([]*smt.Term{}, s.pc...), Pos: x.posOf(x.curInstr), Path: x.paths, Src: src}
	x.obls = append(x.obls, o)
}

func (x *Exec) safety(s *State, kind string, goal *smt.Term) {
	if x.inlineDepth > 0 && false {
		return
	}
	x.addObl(s, kind, x.instrLabel(x.curInstr, kind), goal, nil, "")
	// after the check, continue under the assumption it held (the panic path ends)
	s.assume(goal)
}

// ---------- loops ----------

func (x *Exec) findLoops() {
	x.loops = map[*ssa.BasicBlock]*loopInfo{}
	fn := x.fn
	for _, b := range fn.Blocks {
		for _, succ := range b.Succs {
			if succ.Dominates(b) {
				li := x.loops[succ]
				if li == nil {
					li = &loopInfo{header: succ, body: map[*ssa.BasicBlock]bool{succ: true}, cells: map[*ssa.Alloc]bool{}, heaps: map[string]bool{}, allocStores: map[string][]*ssa.Alloc{}, ptrStores: map[string][]ssa.Value{}}
					x.loops[succ] = li
				}
				// natural loop: all nodes that can reach b without passing header
				var stack []*ssa.BasicBlock
				if !li.body[b] {
					li.body[b] = true
					stack = append(stack, b)
				}
				for len(stack) > 0 {
					n := stack[len(stack)-1]
					stack = stack[:len(stack)-1]
					for _, p := range n.Preds {
						if !li.body[p] {
							li.body[p] = true
							stack = append(stack, p)
						}
					}
				}
			}
		}
	}
	var hs []*ssa.BasicBlock
	for h := range x.loops {
		hs = append(hs, h)
	}
	sort.Slice(hs, func(i, j int) bool { return x.loopPos(hs[i]) < x.loopPos(hs[j]) })
	for i, h := range hs {
		li := x.loops[h]
		li.ordinal = i + 1
		if x.c != nil {
			li.spec = x.c.Loops[li.ordinal]
		}
		x.scanLoop(li)
	}
}

// loopPos orders loops by the smallest source position found in the loop body.
func (x *Exec) loopPos(h *ssa.BasicBlock) int {
	best := int(^uint(0) >> 1)
	for b := range x.loops[h].body {
		for _, in := range b.Instrs {
			if in.Pos().IsValid() && int(in.Pos()) < best {
				best = int(in.Pos())
			}
		}
	}
	return best
}

// rootOf finds the storage written by a store through address value v.
func (x *Exec) rootOf(v ssa.Value, li *loopInfo) {
	switch v := v.(type) {
	case *ssa.Alloc:
		if isStruct(v.Type().(*types.Pointer).Elem()) {
			// whole-struct store into a local struct: all its fields, at that reference only
			if li.allocStores != nil {
				x.structHeapsAt(v.Type().(*types.Pointer).Elem(), v, li)
			} else {
				x.structHeaps(v.Type().(*types.Pointer).Elem(), li)
			}
		} else {
			li.cells[v] = true
		}
	case *ssa.FieldAddr:
		st := v.X.Type().Underlying().(*types.Pointer).Elem()
		ft := st.Underlying().(*types.Struct).Field(v.Field).Type()
		if al, isAlloc := v.X.(*ssa.Alloc); isAlloc && !isStruct(ft) && li.allocStores != nil {
			name, _, _ := x.E.fieldHeap(st, v.Field)
			li.allocStores[name] = append(li.allocStores[name], al)
			return
		}
		if ld, isLoad := v.X.(*ssa.UnOp); isLoad && !isStruct(ft) && li.ptrStores != nil {
			if _, fromCell := ld.X.(*ssa.Alloc); fromCell {
				name, _, _ := x.E.fieldHeap(st, v.Field)
				li.ptrStores[name] = append(li.ptrStores[name], ld)
				return
			}
		}
		if isStruct(ft) {
			x.structHeaps(ft, li)
		} else {
			name, _, _ := x.E.fieldHeap(st, v.Field)
			li.heaps[name] = true
		}
		// field of a struct element inside a slice/cell: also the container root
		if _, isAlloc := v.X.(*ssa.Alloc); !isAlloc {
			if ia, ok := v.X.(*ssa.IndexAddr); ok {
				x.rootOf(ia, li)
			}
		}
	case *ssa.IndexAddr:
		// element of slice loaded from somewhere, or of array pointed to
		switch xx := v.X.(type) {
		case *ssa.UnOp:
			if xx.Op == token.MUL {
				x.rootOf(xx.X, li)
				return
			}
			li.allHeap = true
		case *ssa.Alloc, *ssa.FieldAddr, *ssa.IndexAddr:
			x.rootOf(xx, li)
		default:
			li.allHeap = true
		}
	case *ssa.Global:
		name, _ := x.E.globalHeap(v)
		li.heaps[name] = true
	case *ssa.UnOp, *ssa.Parameter, *ssa.Call, *ssa.Phi, *ssa.Extract:
		// store through a pointer value
		pt, ok := v.Type().Underlying().(*types.Pointer)
		if !ok {
			li.allHeap = true
			return
		}
		if isStruct(pt.Elem()) {
			x.structHeaps(pt.Elem(), li)
		} else {
			name, _ := x.E.boxHeap(pt.Elem())
			li.heaps[name] = true
		}
	default:
		li.allHeap = true
	}
}

func (x *Exec) structHeapsAt(st types.Type, al *ssa.Alloc, li *loopInfo) {
	u := st.Underlying().(*types.Struct)
	for i := 0; i < u.NumFields(); i++ {
		ft := u.Field(i).Type()
		if isStruct(ft) {
			x.structHeaps(ft, li) // nested value structs: conservative
			continue
		}
		name, _, _ := x.E.fieldHeap(st, i)
		li.allocStores[name] = append(li.allocStores[name], al)
	}
}

func (x *Exec) structHeaps(st types.Type, li *loopInfo) {
	u := st.Underlying().(*types.Struct)
	for i := 0; i < u.NumFields(); i++ {
		ft := u.Field(i).Type()
		if isStruct(ft) {
			x.structHeaps(ft, li)
			continue
		}
		name, _, _ := x.E.fieldHeap(st, i)
		li.heaps[name] = true
	}
}

func (x *Exec) scanLoop(li *loopInfo) {
	for b := range li.body {
		for _, in := range b.Instrs {
			switch in := in.(type) {
			case *ssa.Store:
				x.rootOf(in.Addr, li)
			case *ssa.MapUpdate:
				if li.ptrStores != nil {
					li.mapStores = append(li.mapStores, in.Map)
				} else {
					d, v, _, _ := x.E.mapHeaps(in.Map.Type())
					li.heaps[d], li.heaps[v] = true, true
				}
			case *ssa.Call:
				x.scanCall(&in.Call, li)
			case *ssa.Defer:
				x.scanCall(&in.Call, li)
			case *ssa.Go:
				li.allHeap = true
			case *ssa.Send, *ssa.Select:
				li.allHeap = true
			case *ssa.Next:
				if rg, ok := in.Iter.(*ssa.Range); ok {
					if mt, ok := rg.X.Type().Underlying().(*types.Map); ok {
						li.heaps[x.iterHeap(rg, mt)] = true
					}
				}
			}
		}
	}
}

func (x *Exec) scanCall(call *ssa.CallCommon, li *loopInfo) {
	if b, ok := call.Value.(*ssa.Builtin); ok {
		switch b.Name() {
		case "copy":
			x.rootOfSliceValue(call.Args[0], li)
		case "delete":
			if li.ptrStores != nil {
				li.mapStores = append(li.mapStores, call.Args[0])
			} else {
				d, v, _, _ := x.E.mapHeaps(call.Args[0].Type())
				li.heaps[d], li.heaps[v] = true, true
			}
		}
		return
	}
	c, kind := x.calleeContract(call)
	switch kind {
	case calleeIntrinsic:
		return
	case calleeContract:
		if c.Pure {
			return
		}
		if !c.AssignsSet {
			li.allHeap = true
			return
		}
		if li.allocStores != nil {
			li.calls = append(li.calls, call)
		} else {
			hs, all := x.contractHeaps(c, call, nil, nil)
			if all {
				li.allHeap = true
			}
			for _, h := range hs {
				li.heaps[h.Heap] = true
			}
		}
		hs, all := []Target(nil), false
		if all {
			li.allHeap = true
		}
		for _, h := range hs {
			li.heaps[h.Heap] = true
		}
		// post(b) targets: roots of the argument values
		for _, a := range c.Assigns {
			if cl, ok := a.(*spec.Call); ok {
				if id, ok := cl.Fun.(*spec.Ident); ok && id.Name == "post" && len(cl.Args) == 1 {
					if pid, ok := cl.Args[0].(*spec.Ident); ok {
						for i, n := range c.ParamNm {
							if n == pid.Name {
								args := callArgs(call)
								if i < len(args) {
									x.rootOfSliceValue(args[i], li)
								}
							}
						}
					}
				}
			}
		}
	case calleeInline:
		// scan the inlined function's body conservatively
		if fn := staticFn(call); fn != nil {
			sub := &loopInfo{cells: li.cells, heaps: li.heaps, body: map[*ssa.BasicBlock]bool{}}
			for _, b := range fn.Blocks {
				sub.body[b] = true
			}
			x.scanLoop(sub)
			if sub.allHeap {
				li.allHeap = true
			}
			// free variables written by the closure
			if mc, ok := call.Value.(*ssa.MakeClosure); ok {
				for _, bnd := range mc.Bindings {
					if a, ok := bnd.(*ssa.Alloc); ok {
						li.cells[a] = true
					}
				}
			}
		} else {
			li.allHeap = true
		}
	case calleeExternal:
		// external without contract: objects pointed to by args, cells passed by address
		for _, a := range callArgs(call) {
			if al, ok := a.(*ssa.Alloc); ok {
				x.rootOf(al, li)
			}
		}
	default:
		li.allHeap = true
	}
}

func (x *Exec) rootOfSliceValue(v ssa.Value, li *loopInfo) {
	switch v := v.(type) {
	case *ssa.UnOp:
		if v.Op == token.MUL {
			x.rootOf(v.X, li)
			return
		}
	case *ssa.Slice:
		switch xx := v.X.(type) {
		case *ssa.Alloc, *ssa.FieldAddr:
			x.rootOf(xx, li)
			return
		default:
			x.rootOfSliceValue(v.X, li)
			return
		}
	}
	li.allHeap = true
}

func callArgs(call *ssa.CallCommon) []ssa.Value {
	if call.IsInvoke() {
		return append([]ssa.Value{call.Value}, call.Args...)
	}
	return call.Args
}

func staticFn(call *ssa.CallCommon) *ssa.Function {
	if call.IsInvoke() {
		return nil
	}
	switch v := call.Value.(type) {
	case *ssa.Function:
		return v
	case *ssa.MakeClosure:
		return v.Fn.(*ssa.Function)
	}
	return nil
}

// ---------- cuts ----------

func (x *Exec) findCuts() {
	x.cuts = map[ssa.Instruction]*spec.CutSpec{}
	x.cutDone = map[*spec.CutSpec]bool{}
	if x.c == nil {
		return
	}
	for _, cs := range x.c.Cuts {
		n := 0
		found := false
		for _, b := range x.fn.Blocks {
			for _, in := range b.Instrs {
				if c, ok := in.(*ssa.Call); ok && calleeName(&c.Call) == cs.Callee {
					n++
					if n == cs.N {
						// the cut sits after the stores that save the call's results
						at := ssa.Instruction(in)
						for k := indexOf(b, in) + 1; k < len(b.Instrs); k++ {
							switch b.Instrs[k].(type) {
							case *ssa.Store, *ssa.Extract, *ssa.DebugRef:
								at = b.Instrs[k]
								continue
							}
							break
						}
						x.cuts[at] = cs
						found = true
					}
				}
			}
		}
		if !found {
			x.unsupported("cut %s: call %s#%d not found (contract no longer binds)", cs.Label, cs.Callee, cs.N)
		}
	}
}

func indexOf(b *ssa.BasicBlock, in ssa.Instruction) int {
	for i, x := range b.Instrs {
		if x == in {
			return i
		}
	}
	return -1
}

// atCut is called right after the instruction a cut is attached to. It proves the cut invariants on the arriving
// path; the first arrival continues from a generalised state (everything the function may have written is
// havocked, then the invariants are assumed), later arrivals end there.
func (x *Exec) atCut(s *State, cs *spec.CutSpec) bool {
	env := x.specEnv(s, nil)
	if len(cs.Invariants) == 0 {
		x.assumeUses(s, env, cs.Uses)
		return true
	}
	for i, inv := range cs.Invariants {
		x.addObl(s, "cut", cs.Label+":"+clauseLabel(inv, i), x.evalBool(env, inv.E), x.clauseProps(inv), inv.Src)
	}
	if x.cutDone[cs] {
		return false
	}
	x.cutDone[cs] = true
	if x.wholeFn == nil {
		li := &loopInfo{body: map[*ssa.BasicBlock]bool{}, cells: map[*ssa.Alloc]bool{}, heaps: map[string]bool{}, allocStores: map[string][]*ssa.Alloc{}}
		for _, b := range x.fn.Blocks {
			li.body[b] = true
		}
		x.scanLoop(li)
		// cells assigned exactly once, in the entry block, keep their value (parameters, single-assignment locals)
		count := map[*ssa.Alloc]int{}
		inEntry := map[*ssa.Alloc]bool{}
		for _, b := range x.fn.Blocks {
			for _, in := range b.Instrs {
				if st, ok := in.(*ssa.Store); ok {
					if al, ok := st.Addr.(*ssa.Alloc); ok {
						count[al]++
						if b == x.fn.Blocks[0] {
							inEntry[al] = true
						}
					}
				}
			}
		}
		for al := range li.cells {
			if count[al] == 1 && inEntry[al] {
				delete(li.cells, al)
			}
		}
		li.ordinal = 0
		x.wholeFn = li
	}
	keep := s.pc
	_ = keep
	s.pc = append([]*smt.Term{}, x.entryPC...)
	x.havocLoop(s, x.wholeFn)
	env = x.specEnv(s, nil)
	for _, inv := range cs.Invariants {
		s.assume(x.evalBool(env, inv.E))
	}
	s.phiFrom = nil
	return true
}

// ---------- running a function ----------

type FuncResult struct {
	Fn          *ssa.Function
	Name        string
	Obligations []*Obligation
	Unsupported []string
	Paths       int
	Returns     int
	LoopCount   int
}

func (e *Engine) VerifyFunc(c *Contract, maxPaths int) *FuncResult {
	x := &Exec{E: e, fn: c.Fn, c: c, wrote: map[string]bool{}, entryHeap: map[string]*smt.Term{}, epoch: "0",
		maxPaths: maxPaths, counters: map[string]int{}, isInit: c.IsInit, mergeAfter: MergeAfter}
	for _, h := range c.Hints {
		if h == "merge-from-start" {
			x.mergeAfter = 0 // large dispatch functions: join paths from the first branch on
		}
	}
	res := &FuncResult{Fn: c.Fn, Name: funcDisplayName(c.Fn)}
	func() {
		defer func() {
			if r := recover(); r != nil {
				if os, ok := r.(outsideSubset); ok {
					x.unsup = append(x.unsup, string(os))
					return
				}
				// the contract no longer fits the code it is attached to (e.g. a spec map operation on a variable that
				// has become an array): the function leaves the subset; its obligations are NOT discharged
				x.unsup = append(x.unsup, fmt.Sprintf("the contract no longer fits the code (generator error: %v)", r))
			}
		}()
		x.findLoops()
		x.findCuts()
		x.run()
	}()
	// replay: the model terms (parameters, receiver fields at entry) are the same for every obligation
	func() {
		defer func() { recover() }()
		if ri := x.replayInfo(); ri != nil {
			for _, o := range x.obls {
				if o.Expect == "sat" {
					continue
				}
				o.Replay, o.ModelTerms, o.Contract = ri, ri.Terms, c
			}
		}
	}()
	res.Obligations = x.obls
	res.Unsupported = x.unsup
	res.Paths = x.paths
	res.Returns = x.returns
	res.LoopCount = len(x.loops)
	return res
}

type outsideSubset string

// MergeAfter: paths are enumerated separately for the first MergeAfter two-way splits in a function (small, easy
// queries); beyond that, if/else diamonds are joined at their post-dominator (ite-merged state) to bound the path count.
var MergeAfter = 48

func (x *Exec) run() {
	s := &State{heap: map[string]*smt.Term{}, cells: map[*ssa.Alloc]Val{}, env: map[ssa.Value]Val{}, origin: map[ssa.Value]*Addr{}, inLoops: map[*ssa.BasicBlock]bool{}}
	x.params = map[string]SVal{}
	for i, p := range x.fn.Params {
		name := p.Name()
		if i < len(x.c.ParamNm) {
			name = x.c.ParamNm[i]
		}
		t := x.freshOf(s, p.Type(), "p$"+name)
		s.env[p] = TermVal{t}
		x.params[name] = SVal{T: t, GT: p.Type()}
		if t.Sort == smt.Ref {
			x.assumeAllocated(s, t)
		}
		if _, ok := p.Type().Underlying().(*types.Slice); ok {
			// parameter slices: content may be changed through callee assigns (post(b)); origin is the param cell, found at first store
		}
	}
	for _, fv := range x.fn.FreeVars {
		s.env[fv] = TermVal{smt.Fresh("fv$"+fv.Name(), smt.Ref)}
		x.unsupported("function with free variables verified stand-alone")
	}
	// requires
	env := x.specEnv(s, nil)
	for _, r := range x.c.Requires {
		t := x.evalBool(env, r.E)
		s.assume(t)
	}
	// package-level invariants (established by the package initialiser, globals never written afterwards)
	if !x.isInit {
		for _, gi := range x.E.GlobalInvs {
			if gi.Pkg == nil || x.fn.Pkg == nil || gi.Pkg != x.fn.Pkg.Pkg {
				continue // only the invariants of the function's own package are assumed
			}
			if !x.fnMentionsGlobals(identsOf(gi.E)) && !x.contractMentions(identsOf(gi.E)) {
				continue // ... and only when the function (or its contract) reads one of the variables the invariant is about
			}
			genv := x.specEnv(s, nil)
			genv.Pkg = gi.Pkg
			genv.CalleeView = true
			s.assume(x.evalBool(genv, gi.E))
		}
	} else {
		// the initialiser runs once: its guard is false on entry
		for _, m := range x.fn.Pkg.Members {
			if g, ok := m.(*ssa.Global); ok && g.Name() == "init$guard" {
				name, _ := x.E.globalHeap(g)
				x.Heap(s, name)
				s.heap[name] = smt.False
			}
		}
	}
	x.entryPC = append([]*smt.Term{}, s.pc...)
	x.execBlock(s, x.fn.Blocks[0], nil)
}

// contractMentions: does the function's own contract name one of these package variables?
func (x *Exec) contractMentions(names []string) bool {
	if x.c == nil {
		return false
	}
	want := map[string]bool{}
	for _, n := range names {
		if x.fn.Pkg != nil {
			if _, isGlobal := x.fn.Pkg.Members[n].(*ssa.Global); isGlobal {
				want[n] = true
			}
		}
	}
	if len(want) == 0 {
		return false
	}
	var cls []*spec.Clause
	cls = append(cls, x.c.Requires...)
	cls = append(cls, x.c.Ensures...)
	for _, l := range x.c.Loops {
		cls = append(cls, l.Invariants...)
	}
	// ... and the contracts of the functions it calls (their postconditions are assumed here)
	for _, b := range x.fn.Blocks {
		for _, in := range b.Instrs {
			if c, ok := in.(*ssa.Call); ok {
				if callee := staticFn(&c.Call); callee != nil {
					if obj, _ := callee.Object().(*types.Func); obj != nil {
						if cc, ok := x.E.Contracts[obj]; ok && cc.FuncContract != nil {
							cls = append(cls, cc.Requires...)
							cls = append(cls, cc.Ensures...)
						}
					}
				}
			}
		}
	}
	for _, c := range cls {
		for _, id := range identsOf(c.E) {
			if want[id] {
				return true
			}
		}
	}
	return false
}

// fnMentionsGlobals: does the function (or a function literal / inlined callee in it) use one of these package variables?
func (x *Exec) fnMentionsGlobals(names []string) bool {
	want := map[string]bool{}
	for _, n := range names {
		want[n] = true
	}
	seen := map[*ssa.Function]bool{}
	var visit func(f *ssa.Function) bool
	visit = func(f *ssa.Function) bool {
		if f == nil || seen[f] {
			return false
		}
		seen[f] = true
		for _, b := range f.Blocks {
			for _, in := range b.Instrs {
				for _, op := range in.Operands(nil) {
					if g, ok := (*op).(*ssa.Global); ok && want[g.Name()] {
						return true
					}
				}
				if c, ok := in.(*ssa.Call); ok {
					if callee := staticFn(&c.Call); callee != nil {
						if obj, _ := callee.Object().(*types.Func); obj != nil {
							if cc, ok := x.E.Contracts[obj]; ok && cc.Inline && visit(callee) {
								return true
							}
						}
					}
				}
			}
		}
		for _, a := range f.AnonFuncs {
			if visit(a) {
				return true
			}
		}
		return false
	}
	return visit(x.fn)
}

func (x *Exec) specEnv(s *State, results map[string]SVal) *SpecEnv {
	return &SpecEnv{X: x, S: s, Old: x.entryHeap, Vars: x.params, Results: results, Pkg: x.c.SpecPkg, Fn: x.fn}
}

func (x *Exec) clauseProps(c *spec.Clause) []string {
	if len(c.Props) > 0 {
		return c.Props
	}
	return x.c.Props
}

func clauseLabel(c *spec.Clause, i int) string {
	if c.Label != "" {
		return c.Label
	}
	return fmt.Sprintf("%d", i+1)
}

type fork struct {
	st     *State
	val    Val
	resume int // 0: next instruction, 1: same instruction again
}

func (x *Exec) execBlock(s *State, b *ssa.BasicBlock, prev *ssa.BasicBlock) {
	x.execFrom(s, b, 0, prev)
}

type arrival struct {
	st   *State
	from *ssa.BasicBlock
}

// enter continues execution at block b, unless b is the join point currently being collected.
func (x *Exec) enter(s *State, b *ssa.BasicBlock, prev *ssa.BasicBlock) {
	if b == x.curStop && x.curOut != nil {
		*x.curOut = append(*x.curOut, arrival{st: s, from: prev})
		return
	}
	x.execFrom(s, b, 0, prev)
}

// ipdom: immediate post-dominator of b within its function (nil if none).
func (x *Exec) ipdom(b *ssa.BasicBlock) *ssa.BasicBlock {
	fn := b.Parent()
	pd, ok := x.pdoms[fn]
	if !ok {
		pd = computeIPDom(fn)
		if x.pdoms == nil {
			x.pdoms = map[*ssa.Function]map[*ssa.BasicBlock]*ssa.BasicBlock{}
		}
		x.pdoms[fn] = pd
	}
	return pd[b]
}

func computeIPDom(fn *ssa.Function) map[*ssa.BasicBlock]*ssa.BasicBlock {
	n := len(fn.Blocks)
	// node n is the virtual exit
	full := func() []bool {
		a := make([]bool, n+1)
		for i := range a {
			a[i] = true
		}
		return a
	}
	pdom := make([][]bool, n+1)
	for i := 0; i <= n; i++ {
		pdom[i] = full()
	}
	exitSet := make([]bool, n+1)
	exitSet[n] = true
	pdom[n] = exitSet
	succs := func(i int) []int {
		b := fn.Blocks[i]
		if len(b.Succs) == 0 {
			return []int{n}
		}
		var out []int
		for _, s := range b.Succs {
			out = append(out, s.Index)
		}
		return out
	}
	for changed := true; changed; {
		changed = false
		for i := n - 1; i >= 0; i-- {
			nw := full()
			for _, sc := range succs(i) {
				for k := 0; k <= n; k++ {
					nw[k] = nw[k] && pdom[sc][k]
				}
			}
			nw[i] = true
			for k := 0; k <= n; k++ {
				if nw[k] != pdom[i][k] {
					changed = true
				}
			}
			pdom[i] = nw
		}
	}
	res := map[*ssa.BasicBlock]*ssa.BasicBlock{}
	for i := 0; i < n; i++ {
		// strict post-dominators of i; the immediate one is post-dominated by all the others
		var cands []int
		for k := 0; k < n; k++ {
			if k != i && pdom[i][k] {
				cands = append(cands, k)
			}
		}
		for _, c := range cands {
			imm := true
			for _, d := range cands {
				if d != c && !pdom[c][d] {
					imm = false
					break
				}
			}
			if imm {
				res[fn.Blocks[i]] = fn.Blocks[c]
				break
			}
		}
	}
	return res
}

// mergeStates joins the states arriving at a post-dominator into one state whose cells/heap are ite's over the
// arrival guards (the conjunction of each arrival's path-condition delta).
func (x *Exec) mergeStates(arr []arrival, base int) (*State, bool) {
	if len(arr) == 1 {
		st := arr[0].st
		st.phiFrom = []phiSrc{{guard: smt.True, from: arr[0].from}}
		return st, true
	}
	guards := make([]*smt.Term, len(arr))
	for i, a := range arr {
		if len(a.st.pc) < base {
			return nil, false
		}
		guards[i] = smt.And(a.st.pc[base:]...)
		if len(a.st.defers) != len(arr[0].st.defers) {
			return nil, false
		}
		for j := range a.st.defers {
			if a.st.defers[j].inst != arr[0].st.defers[j].inst {
				return nil, false
			}
		}
	}
	chain := func(vals []*smt.Term) *smt.Term {
		same := true
		for _, v := range vals[1:] {
			if v != vals[0] {
				same = false
			}
		}
		if same {
			return vals[0]
		}
		r := vals[len(vals)-1]
		for i := len(vals) - 2; i >= 0; i-- {
			r = smt.Ite(guards[i], vals[i], r)
		}
		return r
	}
	m := arr[0].st.clone()
	m.pc = append(append([]*smt.Term{}, arr[0].st.pc[:base]...), smt.Or(guards...))
	// heap
	names := map[string]bool{}
	for _, a := range arr {
		for h := range a.st.heap {
			names[h] = true
		}
	}
	for h := range names {
		vals := make([]*smt.Term, len(arr))
		for i, a := range arr {
			if t, ok := a.st.heap[h]; ok {
				vals[i] = t
			} else if h == "$alloc" {
				vals[i] = x.entryAlloc()
			} else {
				vals[i] = x.Heap(a.st, h)
			}
		}
		m.heap[h] = chain(vals)
	}
	// cells
	cellSet := map[*ssa.Alloc]bool{}
	for _, a := range arr {
		for c := range a.st.cells {
			cellSet[c] = true
		}
	}
	for c := range cellSet {
		var vals []*smt.Term
		var first Val
		all := true
		allTerm := true
		for _, a := range arr {
			v, ok := a.st.cells[c]
			if !ok {
				all = false
				continue
			}
			if first == nil {
				first = v
			}
			if tv, ok := v.(TermVal); ok {
				vals = append(vals, tv.T)
			} else {
				allTerm = false
			}
		}
		if !all {
			// allocated on some branches only: not live after the join (or re-initialised before use)
			m.cells[c] = first
			continue
		}
		if allTerm {
			m.cells[c] = TermVal{chain(vals)}
			continue
		}
		// non-term values (lists, addresses): must be identical
		for _, a := range arr {
			if !sameVal(a.st.cells[c], first) {
				return nil, false
			}
		}
		m.cells[c] = first
	}
	// env: union; differing term values are merged
	envSet := map[ssa.Value]bool{}
	for _, a := range arr {
		for v := range a.st.env {
			envSet[v] = true
		}
	}
	for v := range envSet {
		var vals []*smt.Term
		var first Val
		all, allTerm := true, true
		for _, a := range arr {
			val, ok := a.st.env[v]
			if !ok {
				all = false
				continue
			}
			if first == nil {
				first = val
			}
			if tv, ok := val.(TermVal); ok {
				vals = append(vals, tv.T)
			} else {
				allTerm = false
			}
		}
		if all && allTerm {
			m.env[v] = TermVal{chain(vals)}
		} else {
			m.env[v] = first
		}
	}
	for _, a := range arr {
		for k, o := range a.st.origin {
			if _, ok := m.origin[k]; !ok {
				m.origin[k] = o
			}
		}
	}
	m.phiFrom = nil
	for i, a := range arr {
		m.phiFrom = append(m.phiFrom, phiSrc{guard: guards[i], from: a.from})
	}
	return m, true
}

func sameVal(a, b Val) bool {
	switch a := a.(type) {
	case TermVal:
		if b, ok := b.(TermVal); ok {
			return a.T == b.T
		}
	case ListVal:
		if b, ok := b.(ListVal); ok && len(a.Elems) == len(b.Elems) {
			for i := range a.Elems {
				if !sameVal(a.Elems[i], b.Elems[i]) {
					return false
				}
			}
			return true
		}
	case BoxedVal:
		if b, ok := b.(BoxedVal); ok {
			return types.Identical(a.Type, b.Type) && sameVal(a.Inner, b.Inner)
		}
	case AddrVal:
		if b, ok := b.(AddrVal); ok {
			return a.A == b.A
		}
	case FuncVal:
		if b, ok := b.(FuncVal); ok {
			return a.Fn == b.Fn && len(a.Bindings) == len(b.Bindings)
		}
	}
	return false
}

func (x *Exec) execFrom(s *State, b *ssa.BasicBlock, start int, prev *ssa.BasicBlock) {
	for {
		if x.paths > x.maxPaths {
			x.unsupported("path limit %d exceeded", x.maxPaths)
			return
		}
		// loop header handling
		if li, ok := x.loops[b]; ok && start == 0 {
			isBack := prev != nil && li.body[prev] && b.Dominates(prev)
			if li.spec == nil || len(li.spec.Invariants) == 0 {
				x.unsupported("loop %d has no invariant", li.ordinal)
				return
			}
			if isBack {
				env := x.specEnv(s, nil)
				env.LoopHeader = b
				for i, inv := range li.spec.Invariants {
					x.curInstr = b.Instrs[0]
					x.addObl(s, "inv-keep", fmt.Sprintf("loop%d:%s", li.ordinal, clauseLabel(inv, i)), x.evalBool(env, inv.E), x.clauseProps(inv), inv.Src)
				}
				x.paths++
				return
			}
			// entry
			env := x.specEnv(s, nil)
			env.LoopHeader = b
			x.assumeUses(s, env, li.spec.Uses)
			for i, inv := range li.spec.Invariants {
				x.curInstr = b.Instrs[0]
				x.addObl(s, "inv-init", fmt.Sprintf("loop%d:%s", li.ordinal, clauseLabel(inv, i)), x.evalBool(env, inv.E), x.clauseProps(inv), inv.Src)
			}
			x.havocLoop(s, li)
			env = x.specEnv(s, nil)
			env.LoopHeader = b
			for _, inv := range li.spec.Invariants {
				s.assume(x.evalBool(env, inv.E))
			}
			x.assumeUses(s, env, li.spec.Uses)
		}
		var next *ssa.BasicBlock
		for idx := start; idx < len(b.Instrs); idx++ {
			in := b.Instrs[idx]
			x.curInstr = in
			switch in := in.(type) {
			case *ssa.If:
				c := x.toTerm(s, x.val(s, in.Cond), types.Typ[types.Bool])
				if c.IsTrue() {
					next = b.Succs[0]
				} else if c.IsFalse() {
					next = b.Succs[1]
				} else {
					J := x.ipdom(b)
					if J != nil && x.loops[J] == nil && !x.noMerge && x.forkCount >= x.mergeAfter {
						base := len(s.pc)
						s2 := s.clone()
						s2.assume(smt.Not(c))
						s.assume(c)
						saveStop, saveOut := x.curStop, x.curOut
						var arr []arrival
						x.curStop, x.curOut = J, &arr
						x.enter(s, b.Succs[0], b)
						if len(x.unsup) == 0 {
							x.enter(s2, b.Succs[1], b)
						}
						x.curStop, x.curOut = saveStop, saveOut
						if len(x.unsup) > 0 || len(arr) == 0 {
							return
						}
						if J == x.curStop && x.curOut != nil {
							// the enclosing branch joins at the same block (a && b && c): hand the arrivals on with
							// their real predecessors, so the join's phis can select by edge
							*x.curOut = append(*x.curOut, arr...)
							return
						}
						if m, ok := x.mergeStates(arr, base); ok {
							x.enter(m, J, nil)
						} else {
							for _, a := range arr {
								x.enter(a.st, J, a.from)
								if len(x.unsup) > 0 {
									return
								}
							}
						}
						return
					}
					s.splits++
					x.forkCount++
					s2 := s.clone()
					s2.assume(smt.Not(c))
					s.assume(c)
					x.enter(s, b.Succs[0], b)
					x.enter(s2, b.Succs[1], b)
					return
				}
			case *ssa.Jump:
				next = b.Succs[0]
			case *ssa.Return:
				var rs []Val
				for _, r := range in.Results {
					rs = append(rs, x.val(s, r))
				}
				if x.retHandler != nil {
					x.retHandler(s, rs)
					return
				}
				x.finish(s, in, rs)
				x.paths++
				return
			case *ssa.Panic:
				if x.c != nil && x.c.MayPanic {
					x.paths++
					return
				}
				x.addObl(s, "no-reach", x.instrLabel(in, "panic"), smt.False, nil, "explicit panic must be unreachable")
				x.paths++
				return
			default:
				ok := x.step(s, in, prev)
				if cs, isCut := x.cuts[in]; isCut && ok && len(x.unsup) == 0 {
					ok = x.atCut(s, cs)
				}
				forks := x.forks
				x.forks = nil
				for _, f := range forks {
					if len(x.unsup) > 0 {
						break
					}
					if f.resume == 1 {
						x.execFrom(f.st, b, idx, prev)
					} else {
						if v, isVal := in.(ssa.Value); isVal && f.val != nil {
							f.st.env[v] = f.val
						}
						x.execFrom(f.st, b, idx+1, prev)
					}
				}
				if !ok {
					x.paths++
					return
				}
			}
			if len(x.unsup) > 0 {
				return
			}
		}
		if next == nil {
			return
		}
		if next == x.curStop && x.curOut != nil {
			*x.curOut = append(*x.curOut, arrival{st: s, from: b})
			return
		}
		prev, b, start = b, next, 0
	}
}

func (x *Exec) havocLoop(s *State, li *loopInfo) {
	tag := fmt.Sprintf("L%d", li.ordinal)
	for a := range li.cells {
		old, ok := s.cells[a]
		if !ok {
			continue // allocated inside the loop
		}
		if _, isList := old.(ListVal); isList {
			continue
		}
		et := a.Type().(*types.Pointer).Elem()
		nv := x.freshOf(s, et, a.Comment+"$"+tag)
		if ot, ok := old.(TermVal); ok && ot.T.Sort.Kind == smt.KSeq {
			if _, isArr := et.Underlying().(*types.Array); isArr {
				s.assume(smt.Eq(smt.SeqLen(nv), smt.SeqLen(ot.T)))
			}
		}
		s.cells[a] = TermVal{nv}
	}
	if li.allHeap {
		x.havocAllHeap(s, tag)
		return
	}
	whole := map[string]bool{}
	for h := range li.heaps {
		whole[h] = true
	}
	keyed := map[string][]*smt.Term{}
	for h, als := range li.allocStores {
		for _, al := range als {
			if v, ok := s.env[al]; ok {
				if tv, ok := v.(TermVal); ok {
					keyed[h] = append(keyed[h], tv.T)
				}
			}
			// allocs created inside the loop are fresh each iteration: nothing to havoc
		}
	}
	for h, ptrs := range li.ptrStores {
		for _, pv := range ptrs {
			// p.f = ... where p is a local that the loop does not reassign: only that object's field changes
			cell, _ := pv.(*ssa.UnOp).X.(*ssa.Alloc)
			cv, ok := s.cells[cell]
			tv, isTerm := cv.(TermVal)
			if cell == nil || !ok || !isTerm || li.cells[cell] {
				whole[h] = true
				continue
			}
			keyed[h] = append(keyed[h], tv.T)
		}
	}
	li.keyCheckLater = true
	for _, call := range li.calls {
		c, _ := x.calleeContract(call)
		ts, all := x.contractHeaps(c, call, s, li)
		if all {
			x.havocAllHeap(s, tag)
			return
		}
		for _, t := range ts {
			if t.Key == nil {
				whole[t.Heap] = true
			} else {
				keyed[t.Heap] = append(keyed[t.Heap], t.Key)
			}
		}
	}
	// maps updated in the loop: only the map whose reference can be named at the header (a value defined before
	// the loop, or a field the loop does not write, of such a value) changes; otherwise every map of that type
	for _, mv := range li.mapStores {
		d, v, _, _ := x.E.mapHeaps(mv.Type())
		deps := map[string]bool{}
		mt, ok := x.headerTerm(s, li, mv, deps, 0)
		if ok {
			for h := range deps {
				if whole[h] || len(keyed[h]) > 0 {
					ok = false
				}
			}
		}
		if !ok {
			whole[d], whole[v] = true, true
			continue
		}
		keyed[d] = append(keyed[d], mt)
		keyed[v] = append(keyed[v], mt)
	}
	// a key that reads a heap this loop writes is not stable across iterations: havoc that heap entirely
	for changed := true; changed; {
		changed = false
		for h, keys := range keyed {
			if whole[h] {
				continue
			}
			for _, k := range keys {
				if x.keyReadsWritten(k, whole, keyed) {
					whole[h] = true
					changed = true
					break
				}
			}
		}
	}
	for h := range whole {
		x.Heap(s, h)
		s.heap[h] = smt.Fresh(h+"$"+tag, x.E.HeapSorts[h])
		x.wrote[h] = true
	}
	for h, keys := range keyed {
		if whole[h] {
			continue
		}
		srt := x.E.HeapSorts[h]
		cur := x.Heap(s, h)
		for _, k := range keys {
			if srt.Kind == smt.KArr {
				cur = smt.Store(cur, k, smt.Fresh(h+"$"+tag, srt.Args[1]))
			} else {
				cur = smt.Fresh(h+"$"+tag, srt)
			}
		}
		s.heap[h] = cur
		x.wrote[h] = true
	}
	if li.spec != nil {
		env := x.specEnv(s, nil)
		for _, a := range li.spec.Assigns {
			x.havocTarget(env, a, tag)
		}
	}
}

// headerTerm names, in the state at a loop header, the value that an SSA value computed inside the loop will have
// in every iteration: values defined before the loop, loads of cells the loop does not assign, and loads of fields
// (heaps recorded in deps; the caller checks the loop does not write them) of such values.
func (x *Exec) headerTerm(s *State, li *loopInfo, v ssa.Value, deps map[string]bool, depth int) (*smt.Term, bool) {
	if depth > 4 {
		return nil, false
	}
	in, isInstr := v.(ssa.Instruction)
	if !isInstr || !li.body[in.Block()] {
		if ev, ok := s.env[v]; ok {
			if tv, ok := ev.(TermVal); ok {
				return tv.T, true
			}
		}
		if _, isParam := v.(*ssa.Parameter); isParam {
			if tv, ok := x.val(s, v).(TermVal); ok {
				return tv.T, true
			}
		}
		return nil, false
	}
	ld, ok := v.(*ssa.UnOp)
	if !ok || ld.Op != token.MUL {
		return nil, false
	}
	switch a := ld.X.(type) {
	case *ssa.Alloc:
		if li.cells[a] {
			return nil, false
		}
		if tv, ok := s.cells[a].(TermVal); ok {
			return tv.T, true
		}
	case *ssa.Global:
		// a package variable the loop does not assign (the caller checks deps)
		name, _ := x.E.globalHeap(a)
		if _, isStructT := a.Type().(*types.Pointer).Elem().Underlying().(*types.Struct); isStructT {
			return nil, false
		}
		deps[name] = true
		return x.Heap(s, name), true
	case *ssa.FieldAddr:
		st := a.X.Type().Underlying().(*types.Pointer).Elem()
		ft := st.Underlying().(*types.Struct).Field(a.Field).Type()
		if isStruct(ft) {
			return nil, false
		}
		base, ok := x.headerTerm(s, li, a.X, deps, depth+1)
		if !ok {
			return nil, false
		}
		name, _, _ := x.E.fieldHeap(st, a.Field)
		deps[name] = true
		return smt.Select(x.Heap(s, name), base), true
	}
	return nil, false
}

// keyReadsWritten: does the key term read (a version of) a heap that the loop writes?
func (x *Exec) keyReadsWritten(k *smt.Term, whole map[string]bool, keyed map[string][]*smt.Term) bool {
	found := false
	seen := map[int]bool{}
	var walk func(t *smt.Term)
	walk = func(t *smt.Term) {
		if found || seen[t.ID()] {
			return
		}
		seen[t.ID()] = true
		if t.Op == "var" && t.Sort.Kind == smt.KArr {
			for h := range x.E.HeapSorts {
				if (whole[h] || len(keyed[h]) > 0) && (strings.HasPrefix(t.Name, h+"@") || strings.HasPrefix(t.Name, h+"$")) {
					found = true
					return
				}
			}
		}
		for _, a := range t.Args {
			walk(a)
		}
	}
	walk(k)
	return found
}

func (x *Exec) havocAllHeap(s *State, tag string) {
	keep := x.havocKeep
	// fields of non-escaping struct locals survive: nothing outside this function has their address
	type loc struct {
		heap string
		ref  *smt.Term
	}
	var locs []loc
	var collect func(r *smt.Term, t types.Type, depth int)
	collect = func(r *smt.Term, t types.Type, depth int) {
		u, ok := t.Underlying().(*types.Struct)
		if !ok || depth > 3 {
			return
		}
		for i := 0; i < u.NumFields(); i++ {
			ft := u.Field(i).Type()
			if isStruct(ft) {
				collect(x.E.subRef(t, i, r), ft, depth+1)
				continue
			}
			name, _, _ := x.E.fieldHeap(t, i)
			locs = append(locs, loc{name, r})
		}
	}
	for _, ss := range x.stackStructs {
		collect(ss.ref, ss.typ, 0)
	}
	saved := map[string]*smt.Term{}
	for _, l := range locs {
		if _, ok := saved[l.heap]; !ok {
			saved[l.heap] = x.Heap(s, l.heap)
		}
	}
	for h, srt := range x.E.HeapSorts {
		if keep[h] {
			continue
		}
		x.Heap(s, h)
		s.heap[h] = smt.Fresh(h+"$"+tag, srt)
		x.wrote[h] = true
	}
	for _, l := range locs {
		if keep[l.heap] {
			continue
		}
		s.heap[l.heap] = smt.Store(s.heap[l.heap], l.ref, smt.Select(saved[l.heap], l.ref))
	}
	x.wrote["*"] = true
}

type stackStruct struct {
	ref *smt.Term
	typ types.Type
}

// val evaluates an SSA value operand.
func (x *Exec) val(s *State, v ssa.Value) Val {
	switch v := v.(type) {
	case *ssa.Const:
		return x.constVal(v)
	case *ssa.Global:
		return AddrVal{&Addr{Kind: BaseGlobal, Global: v, ElemTy: v.Type().(*types.Pointer).Elem()}}
	case *ssa.Function:
		return FuncVal{Fn: v}
	case *ssa.Builtin:
		return FuncVal{}
	}
	r, ok := s.env[v]
	if !ok {
		panic(outsideSubset(fmt.Sprintf("value %s (%T) used before definition on this path in %s", v.Name(), v, x.fn)))
	}
	return r
}

func (x *Exec) term(s *State, v ssa.Value) *smt.Term {
	return x.toTerm(s, x.val(s, v), v.Type())
}

// addrOf turns a pointer-typed SSA value into an Addr.
func (x *Exec) addrOf(s *State, v ssa.Value) *Addr {
	pv := x.val(s, v)
	pt := v.Type().Underlying().(*types.Pointer)
	switch pv := pv.(type) {
	case AddrVal:
		return pv.A
	case TermVal:
		// Ref to box of non-struct
		if isStruct(pt.Elem()) {
			panic("addrOf on struct ref")
		}
		x.safety(s, "nil", smt.Neq(pv.T, RefNil))
		return &Addr{Kind: BaseBox, Ref: pv.T, BoxType: pt.Elem(), ElemTy: pt.Elem()}
	}
	panic(outsideSubset(fmt.Sprintf("unsupported pointer value %T", pv)))
}

// finish handles a return from the function under verification.
func (x *Exec) finish(s *State, ret *ssa.Return, rs []Val) {
	x.returns++
	// vacuity guard: the hypotheses on (at least one) return path must be satisfiable
	if x.returns <= 6 {
		x.curInstr = ret
		name := fmt.Sprintf("%s#cover:return-reachable", funcDisplayName(x.fn))
		x.obls = append(x.obls, &Obligation{Name: name, Func: funcDisplayName(x.fn), Kind: "cover", Props: x.c.Props, Goal: smt.True,
			Hyps: append([]*smt.Term{}, s.pc...), Pos: x.posOf(ret), Expect: "sat", Src: "requires and path condition are satisfiable (vacuity guard)"})
	}
	results := map[string]SVal{}
	sig := x.fn.Signature
	for i, r := range rs {
		name := fmt.Sprintf("result%d", i)
		if i < len(x.c.ResultNm) {
			name = x.c.ResultNm[i]
		}
		rt := sig.Results().At(i).Type()
		results[name] = SVal{T: x.toTerm(s, r, rt), GT: rt}
	}
	// post-state contents of slice parameters: current value of the parameter cell
	env := x.specEnv(s, results)
	env.PostParams = map[string]*smt.Term{}
	for i, p := range x.fn.Params {
		if _, ok := p.Type().Underlying().(*types.Slice); !ok {
			continue
		}
		name := x.c.ParamNm[i]
		// find the cell that received the param
		for _, in := range x.fn.Blocks[0].Instrs {
			if st, ok := in.(*ssa.Store); ok && st.Val == p {
				if al, ok := st.Addr.(*ssa.Alloc); ok {
					if cv, ok := s.cells[al].(TermVal); ok {
						env.PostParams[name] = cv.T
					}
				}
			}
		}
	}
	x.curInstr = ret
	// ghost assignments
	for _, gs := range x.c.GhostSets {
		ts, all := x.resolveTargets(env, gs.Target)
		if all || len(ts) != 1 || !(strings.HasPrefix(ts[0].Heap, "GF$") || strings.HasPrefix(ts[0].Heap, "GV$")) {
			x.unsupported("ghostset target must be one ghost field or ghost variable")
			continue
		}
		v := x.eval(env, gs.Value)
		t := ts[0]
		if t.Key == nil {
			x.Heap(s, t.Heap)
			s.heap[t.Heap] = v.T
		} else {
			s.heap[t.Heap] = smt.Store(x.Heap(s, t.Heap), t.Key, v.T)
		}
		x.wrote[t.Heap] = true
	}
	// explicit lemma instantiations (the lemmas are proved separately)
	x.assumeUses(s, env, x.c.Uses)
	for i, en := range x.c.Ensures {
		goal := x.evalBool(env, en.E)
		x.addObl(s, "post", clauseLabel(en, i), goal, x.clauseProps(en), en.Src)
		x.obls[len(x.obls)-1].Clause = en.E
	}
	if x.c.AssignsSet {
		x.frameCheck(s, env)
	}
}

// assumeUses assumes the lemma instances named by `use` clauses, arguments evaluated in env's state.
func (x *Exec) assumeUses(s *State, env *SpecEnv, uses []*spec.Clause) {
	for _, u := range uses {
		call, ok := u.E.(*spec.Call)
		if !ok {
			x.unsupported("use clause must be a lemma application")
			continue
		}
		id, ok2 := call.Fun.(*spec.Ident)
		if !ok2 {
			x.unsupported("use clause must be a lemma application")
			continue
		}
		l := x.E.Lemmas[id.Name]
		if l == nil || len(call.Args) != len(l.Params) {
			x.unsupported("use: unknown lemma %s or wrong arity", id.Name)
			continue
		}
		var args []SVal
		for _, a := range call.Args {
			args = append(args, x.eval(env, a))
		}
		s.assume(x.lemmaInstance(env, l, args))
	}
}

// frameCheck: every heap entry written on this path must agree with the entry heap outside the assigns targets.
func (x *Exec) frameCheck(s *State, env *SpecEnv) {
	// evaluate targets in the entry state (targets denote locations at entry)
	oldEnv := *env
	oldEnv.UseOld = true
	type tgt struct {
		heap string
		key  *smt.Term
	}
	var targets []tgt
	wild := false
	for _, a := range x.c.Assigns {
		ts, all := x.resolveTargets(&oldEnv, a)
		if all {
			wild = true
		}
		for _, t := range ts {
			targets = append(targets, tgt{t.Heap, t.Key})
		}
	}
	if wild {
		return
	}
	var names []string
	for h := range s.heap {
		names = append(names, h)
	}
	sort.Strings(names)
	for _, h := range names {
		cur := s.heap[h]
		ent, ok := x.entryHeap[h]
		if !ok || cur == ent || h == "$alloc" || strings.HasPrefix(h, "IT$") {
			continue // IT$: the executor's own bookkeeping of a map iteration, not program state
		}
		srt := x.E.HeapSorts[h]
		var goal *smt.Term
		if srt.Kind == smt.KArr && (strings.HasPrefix(h, "H$") || strings.HasPrefix(h, "GF$") || strings.HasPrefix(h, "P$") || strings.HasPrefix(h, "MD$") || strings.HasPrefix(h, "MV$")) {
			k := smt.Fresh("frame$k", srt.Args[0])
			var excl []*smt.Term
			skip := false
			for _, t := range targets {
				if t.heap == h {
					if t.key == nil {
						skip = true
						break
					}
					excl = append(excl, smt.Neq(k, t.key))
				}
			}
			if skip {
				continue
			}
			// only locations allocated at entry matter to the caller
			if srt.Args[0] == smt.Ref {
				excl = append(excl, smt.Select(x.entryAlloc(), RootOf(k)))
			}
			goal = smt.Implies(smt.And(excl...), smt.Eq(smt.Select(cur, k), smt.Select(ent, k)))
		} else {
			skip := false
			for _, t := range targets {
				if t.heap == h {
					skip = true
				}
			}
			if skip {
				continue
			}
			goal = smt.Eq(cur, ent)
		}
		x.addObl(s, "frame", h, goal, x.c.Props, "assigns clause: "+h+" unchanged outside the listed targets")
	}
}

func (x *Exec) entryAlloc() *smt.Term {
	x.E.HeapSorts["$alloc"] = smt.Arr(smt.Ref, smt.Bool)
	if t, ok := x.entryHeap["$alloc"]; ok {
		return t
	}
	t := smt.Var("$alloc@"+x.epoch, smt.Arr(smt.Ref, smt.Bool))
	x.entryHeap["$alloc"] = t
	return t
}

func (x *Exec) allocNew(s *State, hint string) *smt.Term {
	x.E.HeapSorts["$alloc"] = smt.Arr(smt.Ref, smt.Bool)
	cur, ok := s.heap["$alloc"]
	if !ok {
		cur = x.entryAlloc()
	}
	r := smt.Fresh("new$"+hint, smt.Ref)
	s.assume(smt.Neq(r, RefNil))
	s.assume(smt.Not(smt.Select(cur, r)))
	s.assume(smt.Eq(RootOf(r), r))
	s.heap["$alloc"] = smt.Store(cur, r, smt.True)
	return r
}

// assumeAllocated records that a reference obtained from the pre-existing heap/params is allocated (or nil).
func (x *Exec) assumeAllocated(s *State, r *smt.Term) {
	if r == RefNil || r.Op == "var" && strings.HasPrefix(r.Name, "new$") {
		return
	}
	cur, ok := s.heap["$alloc"]
	if !ok {
		cur = x.entryAlloc()
	}
	// a reference read from the unmodified entry heap (or a parameter) was allocated at entry
	if r.Op == "var" && strings.HasPrefix(r.Name, "p$") {
		cur = x.entryAlloc()
	}
	if r.Op == "select" && r.Args[0].Op == "var" && strings.HasSuffix(r.Args[0].Name, "@"+x.epoch) && r.Args[1].Sort == smt.Ref {
		// read from the unmodified entry heap: if the object read from existed at entry, so did what it points to
		// (an object created since then may of course point to newer objects)
		s.assume(smt.Implies(smt.Select(x.entryAlloc(), RootOf(r.Args[1])), smt.Or(smt.Eq(r, RefNil), smt.Select(x.entryAlloc(), RootOf(r)))))
	}
	s.assume(smt.Or(smt.Eq(r, RefNil), smt.Select(cur, RootOf(r))))
}
