package vc

import (
	"fmt"
	"go/token"
	"go/types"
	"sort"
	"strings"

	"golang.org/x/tools/go/ssa"

	"govc/spec"
)

// StructuralObligations computes obligations decided by dataflow over SSA (no SMT):
// the `structural` clauses of function contracts and the `guarded_by` declarations.
func (e *Engine) StructuralObligations(want map[string]bool) ([]*Obligation, error) {
	var out []*Obligation
	for _, c := range e.SortedContracts() {
		if c.Fn == nil {
			continue
		}
		for _, sc := range c.Structural {
			props := sc.Props
			if len(props) == 0 {
				props = c.Props
			}
			if !hasProp(props, want) {
				continue
			}
			label := sc.Label
			if label == "" {
				label = sc.Kind
			}
			o := &Obligation{Name: fmt.Sprintf("%s#structural:%s", funcDisplayName(c.Fn), label), Func: funcDisplayName(c.Fn), Kind: "structural",
				Props: props, Structu: true, Src: sc.Kind + " " + strings.Join(sc.Args, " ")}
			switch sc.Kind {
			case "confine_recover":
				o.StructOK, o.StructMsg = checkConfineRecover(c.Fn)
			case "defers_before_calls":
				o.StructOK, o.StructMsg = checkDefersBeforeCalls(c.Fn, sc.Args)
			case "stores_before_calls":
				o.StructOK, o.StructMsg = e.checkStoresBeforeCalls(c.Fn, sc.Args)
			case "no_global_stores":
				o.StructOK, o.StructMsg = e.checkNoGlobalStores(c.Fn, sc.Args)
			case "locks_released":
				o.StructOK, o.StructMsg = checkLocksReleased(c.Fn)
			case "no_package_state":
				o.StructOK, o.StructMsg = e.checkNoPackageState(c.Fn, sc.Args)
			case "pool_put_releases":
				o.StructOK, o.StructMsg = checkPoolPutReleases(c.Fn, sc.Args)
			case "chan_buffered":
				o.StructOK, o.StructMsg = checkChanBuffered(c.Fn, sc.Args)
			case "sends_selectable":
				o.StructOK, o.StructMsg = checkSendsSelectable(c.Fn, sc.Args)
			default:
				return nil, fmt.Errorf("%s:%d: unknown structural clause %q", c.File, sc.Line, sc.Kind)
			}
			out = append(out, o)
		}
	}
	out = append(out, e.globalReadOnlyObligations(want)...)
	out = append(out, e.writersObligations(want)...)
	gs, err := e.guardObligations(want)
	if err != nil {
		return nil, err
	}
	out = append(out, gs...)
	return out, nil
}

func calleeName(call *ssa.CallCommon) string {
	if call.IsInvoke() {
		return call.Method.Name()
	}
	switch v := call.Value.(type) {
	case *ssa.Function:
		return v.Name()
	case *ssa.Builtin:
		return v.Name()
	case *ssa.MakeClosure:
		return v.Fn.Name()
	}
	return ""
}

// checkConfineRecover: the first effectful instruction of the function registers a deferred function literal
// whose own body calls the builtin recover directly. (`defer recover()` does not qualify: recover must be
// called directly by the deferred function, Go spec "Handling panics".)
func checkConfineRecover(fn *ssa.Function) (bool, string) {
	for _, in := range fn.Blocks[0].Instrs {
		switch in := in.(type) {
		case *ssa.Defer:
			if b, ok := in.Call.Value.(*ssa.Builtin); ok && b.Name() == "recover" {
				return false, "`defer recover()` makes recover the deferred function itself; it returns nil and the panic continues"
			}
			var lit *ssa.Function
			switch v := in.Call.Value.(type) {
			case *ssa.MakeClosure:
				lit = v.Fn.(*ssa.Function)
			case *ssa.Function:
				lit = v
			}
			if lit == nil || len(lit.Blocks) == 0 {
				return false, "first deferred call is not a function literal"
			}
			for _, b := range lit.Blocks {
				for _, i2 := range b.Instrs {
					if c, ok := i2.(*ssa.Call); ok {
						if bi, ok := c.Call.Value.(*ssa.Builtin); ok && bi.Name() == "recover" {
							return true, ""
						}
					}
				}
			}
			return false, "the first deferred function does not call recover() directly"
		case *ssa.Call:
			if b, ok := in.Call.Value.(*ssa.Builtin); ok && strings.HasPrefix(b.Name(), "ssa:") {
				continue
			}
			return false, "a call (" + calleeName(&in.Call) + ") precedes the registration of the recovering deferred function"
		case *ssa.Go:
			return false, "a go statement precedes the registration of the recovering deferred function"
		}
	}
	return false, "no deferred recovering function is registered in the entry block"
}

// checkDefersBeforeCalls: for every Defer of a call whose callee name contains one of the given substrings,
// count them; every such defer must be in a block that dominates all Return instructions, so that it runs on
// every exit. At least one must exist per substring.
func checkDefersBeforeCalls(fn *ssa.Function, names []string) (bool, string) {
	for _, want := range names {
		found := 0
		for _, b := range fn.Blocks {
			for _, in := range b.Instrs {
				d, ok := in.(*ssa.Defer)
				if !ok || !strings.Contains(calleeName(&d.Call), want) {
					continue
				}
				found++
				for _, rb := range fn.Blocks {
					if rb == fn.Recover {
						continue
					}
					for _, ri := range rb.Instrs {
						if _, isRet := ri.(*ssa.Return); isRet && !b.Dominates(rb) {
							return false, fmt.Sprintf("defer of %s does not dominate every return", calleeName(&d.Call))
						}
					}
				}
			}
		}
		if found == 0 {
			return false, "no deferred call to " + want
		}
	}
	return true, ""
}

// checkNoGlobalStores: the function (and function literals inside it) stores to no package-level variable
// other than those listed.
func (e *Engine) checkNoGlobalStores(fn *ssa.Function, allowed []string) (bool, string) {
	ok, msg := true, ""
	var visit func(f *ssa.Function)
	visit = func(f *ssa.Function) {
		for _, b := range f.Blocks {
			for _, in := range b.Instrs {
				if st, isStore := in.(*ssa.Store); isStore {
					if g, isG := st.Addr.(*ssa.Global); isG {
						al := false
						for _, a := range allowed {
							if a == g.Name() {
								al = true
							}
						}
						if !al {
							ok, msg = false, "stores to package-level variable "+g.Name()
						}
					}
				}
			}
		}
		for _, an := range f.AnonFuncs {
			visit(an)
		}
	}
	visit(fn)
	return ok, msg
}

// ---------- guarded_by ----------

// guardObligations: every load/store of a guarded field anywhere in the loaded module packages must happen
// while the named lock of the same object is held (must-hold lock set, intraprocedural; functions may declare
// `structural holds <lock>` to state that their callers hold it).
func (e *Engine) guardObligations(want map[string]bool) ([]*Obligation, error) {
	var out []*Obligation
	for _, g := range e.Guards {
		if !hasProp(g.Props, want) {
			continue
		}
		st, err := e.lookupNamed(g.Pkg, g.Type)
		if err != nil {
			return nil, fmt.Errorf("guarded_by: %v", err)
		}
		u, ok := st.Underlying().(*types.Struct)
		if !ok {
			return nil, fmt.Errorf("guarded_by: %s is not a struct", g.Type)
		}
		if len(g.Fields) == 1 && g.Fields[0] == "@broadcast_only" {
			out = append(out, e.broadcastOnly(g, st, u)...)
			continue
		}
		fields := map[int]string{}
		all := len(g.Fields) == 1 && g.Fields[0] == "*"
		for i := 0; i < u.NumFields(); i++ {
			if all {
				fields[i] = u.Field(i).Name()
				continue
			}
			for _, f := range g.Fields {
				if u.Field(i).Name() == f {
					fields[i] = f
				}
			}
		}
		if !all && len(fields) != len(g.Fields) {
			return nil, fmt.Errorf("CONTRACT-STALE guarded_by: some of the fields %v not found in %s", g.Fields, g.Type)
		}
		overwrites := map[string][]string{}
		for _, sp := range e.SSAPkgs {
			if !e.inModule(sp.Pkg) {
				continue
			}
			for _, fn := range allFunctions(sp) {
				out = append(out, e.guardFunc(fn, st, fields, g)...)
				e.elemOverwrites(fn, st, fields, overwrites)
			}
		}
		// readers copy the slice header under the lock and then read the elements without it: the elements of a
		// published slice must never be overwritten (append-only), anywhere in the module
		var idx []int
		for i := range fields {
			idx = append(idx, i)
		}
		sort.Ints(idx)
		for _, i := range idx {
			if _, ok := u.Field(i).Type().Underlying().(*types.Slice); !ok {
				continue
			}
			sites := overwrites[fields[i]]
			msg := ""
			if len(sites) > 0 {
				msg = fmt.Sprintf("elements of the published slice %s.%s are overwritten in place at %s", g.Type, fields[i], strings.Join(sites, ", "))
			}
			out = append(out, &Obligation{Name: fmt.Sprintf("guard:%s.%s:published-elements-never-overwritten", g.Type, fields[i]), Func: g.Type, Kind: "guard", Props: g.Props,
				Structu: true, StructOK: len(sites) == 0, StructMsg: msg, Src: fmt.Sprintf("guarded_by %s.%s", g.Type, g.Lock)})
		}
	}
	return out, nil
}

// elemOverwrites records the places where fn stores into (or copies over) elements of a slice that was loaded from
// one of the guarded fields: element stores x[i] = v, copy(x, ..), and append(x[:k], ..) on a re-sliced prefix.
func (e *Engine) elemOverwrites(fn *ssa.Function, st types.Type, fields map[int]string, into map[string][]string) {
	if fn.Synthetic != "" {
		return
	}
	var from func(v ssa.Value, depth int) (string, bool)
	from = func(v ssa.Value, depth int) (string, bool) {
		if depth > 8 {
			return "", false
		}
		switch v := v.(type) {
		case *ssa.UnOp:
			if v.Op != token.MUL {
				return "", false
			}
			if fa, ok := v.X.(*ssa.FieldAddr); ok {
				if pt, ok := fa.X.Type().Underlying().(*types.Pointer); ok && types.Identical(pt.Elem(), st) {
					if n, ok := fields[fa.Field]; ok {
						return n, true
					}
				}
			}
			// naive-form SSA keeps locals in cells: look through the values stored into the cell
			if al, ok := v.X.(*ssa.Alloc); ok && al.Referrers() != nil {
				for _, r := range *al.Referrers() {
					if stv, ok := r.(*ssa.Store); ok && stv.Addr == al {
						if n, ok := from(stv.Val, depth+1); ok {
							return n, true
						}
					}
				}
			}
		case *ssa.Slice:
			return from(v.X, depth+1)
		case *ssa.ChangeType:
			return from(v.X, depth+1)
		case *ssa.Phi:
			for _, ed := range v.Edges {
				if n, ok := from(ed, depth+1); ok {
					return n, true
				}
			}
		}
		return "", false
	}
	site := func(pos token.Pos, what string) string {
		if pos.IsValid() {
			p := e.Fset.Position(pos)
			return fmt.Sprintf("%s:%d (%s)", shortFile(p.Filename), p.Line, what)
		}
		return funcDisplayName(fn) + " (" + what + ")"
	}
	for _, b := range fn.Blocks {
		for _, instr := range b.Instrs {
			switch instr := instr.(type) {
			case *ssa.Store:
				if ia, ok := instr.Addr.(*ssa.IndexAddr); ok {
					if n, ok := from(ia.X, 0); ok {
						into[n] = append(into[n], site(instr.Pos(), "element store"))
					}
				}
			case *ssa.Call:
				if bi, ok := instr.Call.Value.(*ssa.Builtin); ok && len(instr.Call.Args) > 0 {
					switch bi.Name() {
					case "copy":
						if n, ok := from(instr.Call.Args[0], 0); ok {
							into[n] = append(into[n], site(instr.Pos(), "copy"))
						}
					case "append":
						if sl, ok := instr.Call.Args[0].(*ssa.Slice); ok {
							if n, ok := from(sl, 0); ok {
								into[n] = append(into[n], site(instr.Pos(), "append to a re-sliced prefix"))
							}
						}
					}
				}
			}
		}
	}
}

func allFunctions(p *ssa.Package) []*ssa.Function {
	var out []*ssa.Function
	var add func(f *ssa.Function)
	add = func(f *ssa.Function) {
		if f == nil || len(f.Blocks) == 0 {
			return
		}
		out = append(out, f)
		for _, a := range f.AnonFuncs {
			add(a)
		}
	}
	for _, m := range p.Members {
		switch m := m.(type) {
		case *ssa.Function:
			add(m)
		case *ssa.Type:
			for _, t := range []types.Type{m.Type(), types.NewPointer(m.Type())} {
				ms := p.Prog.MethodSets.MethodSet(t)
				for i := 0; i < ms.Len(); i++ {
					f := p.Prog.MethodValue(ms.At(i))
					if f != nil && f.Pkg == p {
						dup := false
						for _, o := range out {
							if o == f {
								dup = true
							}
						}
						if !dup {
							add(f)
						}
					}
				}
			}
		}
	}
	return out
}

func (e *Engine) guardFunc(fn *ssa.Function, st types.Type, fields map[int]string, g GuardInfo) []*Obligation {
	if fn.Synthetic != "" {
		return nil
	}
	var out []*Obligation
	// must-hold dataflow: set of lock "keys" (string of the SSA value path of the receiver object + lock field)
	type lockset map[string]bool
	in := map[*ssa.BasicBlock]lockset{}
	entryHeld := lockset{}
	if c := e.contractOfFn(fn); c != nil {
		for _, sc := range c.Structural {
			if sc.Kind == "holds" {
				for _, a := range sc.Args {
					entryHeld[a] = true
				}
			}
		}
	}
	objKey := func(v ssa.Value) string { return valuePath(v) }
	transfer := func(b *ssa.BasicBlock, ls lockset, report bool) lockset {
		cur := lockset{}
		for k := range ls {
			cur[k] = true
		}
		for _, instr := range b.Instrs {
			switch instr := instr.(type) {
			case *ssa.Call:
				name := calleeName(&instr.Call)
				if (name == "Lock" || name == "RLock" || name == "Unlock" || name == "RUnlock") && len(instr.Call.Args) > 0 {
					if fa, ok := instr.Call.Args[0].(*ssa.FieldAddr); ok {
						k := objKey(fa.X) + "." + fieldNameOf(fa)
						if name == "Lock" || name == "RLock" {
							cur[k] = true
						} else {
							delete(cur, k)
						}
					}
				}
			case *ssa.FieldAddr:
				pt, ok := instr.X.Type().Underlying().(*types.Pointer)
				if !ok || !types.Identical(pt.Elem(), st) {
					continue
				}
				fname, guarded := fields[instr.Field]
				if !guarded || !report {
					continue
				}
				k := objKey(instr.X) + "." + g.Lock
				held := cur[k] || cur["recv."+g.Lock] && false
				for hk := range cur {
					if strings.HasSuffix(hk, "."+g.Lock) && (hk == k || entryHeld[g.Lock]) {
						held = true
					}
				}
				if entryHeld[g.Lock] {
					held = true
				}
				kind := "load"
				if refs := instr.Referrers(); refs != nil {
					for _, r := range *refs {
						if s, ok := r.(*ssa.Store); ok && s.Addr == instr {
							kind = "store"
						}
					}
				}
				n := 0
				for _, o := range out {
					if strings.Contains(o.Name, fmt.Sprintf("guard:%s.%s@%s:%s", g.Type, fname, funcDisplayName(fn), kind)) {
						n++
					}
				}
				name := fmt.Sprintf("guard:%s.%s@%s:%s#%d", g.Type, fname, funcDisplayName(fn), kind, n+1)
				pos := ""
				if instr.Pos().IsValid() {
					p := e.Fset.Position(instr.Pos())
					pos = fmt.Sprintf("%s:%d", shortFile(p.Filename), p.Line)
				}
				msg := ""
				if !held {
					msg = fmt.Sprintf("%s of %s.%s without holding %s", kind, g.Type, fname, g.Lock)
				}
				out = append(out, &Obligation{Name: name, Func: funcDisplayName(fn), Kind: "guard", Props: g.Props, Structu: true, StructOK: held, StructMsg: msg, Pos: pos,
					Src: fmt.Sprintf("guarded_by %s.%s", g.Type, g.Lock)})
			}
		}
		return cur
	}
	// fixpoint
	in[fn.Blocks[0]] = entryHeld
	changed := true
	outSets := map[*ssa.BasicBlock]lockset{}
	for iter := 0; changed && iter < 50; iter++ {
		changed = false
		for _, b := range fn.Blocks {
			var ls lockset
			if b == fn.Blocks[0] {
				ls = entryHeld
			} else {
				first := true
				for _, p := range b.Preds {
					po, ok := outSets[p]
					if !ok {
						continue
					}
					if first {
						ls = lockset{}
						for k := range po {
							ls[k] = true
						}
						first = false
					} else {
						for k := range ls {
							if !po[k] {
								delete(ls, k)
							}
						}
					}
				}
				if ls == nil {
					ls = lockset{}
				}
			}
			in[b] = ls
			no := transfer(b, ls, false)
			if !sameSet(no, outSets[b]) {
				outSets[b] = no
				changed = true
			}
		}
	}
	for _, b := range fn.Blocks {
		transfer(b, in[b], true)
	}
	return out
}

func sameSet(a, b map[string]bool) bool {
	if b == nil || len(a) != len(b) {
		return false
	}
	for k := range a {
		if !b[k] {
			return false
		}
	}
	return true
}

func fieldNameOf(fa *ssa.FieldAddr) string {
	st := fa.X.Type().Underlying().(*types.Pointer).Elem().Underlying().(*types.Struct)
	return st.Field(fa.Field).Name()
}

// valuePath gives a syntactic access path for an SSA value (naive form: loads of named cells).
func valuePath(v ssa.Value) string {
	switch v := v.(type) {
	case *ssa.UnOp:
		return valuePath(v.X)
	case *ssa.Alloc:
		return v.Comment
	case *ssa.Parameter:
		return v.Name()
	case *ssa.FieldAddr:
		return valuePath(v.X) + "." + fieldNameOf(v)
	case *ssa.FreeVar:
		return v.Name()
	case *ssa.Global:
		return v.Name()
	}
	return v.Name()
}

func (e *Engine) contractOfFn(fn *ssa.Function) *Contract {
	if obj, ok := fn.Object().(*types.Func); ok {
		return e.Contracts[obj]
	}
	return nil
}

// globalReadOnlyObligations: every package-level variable mentioned by a globalinv clause is written only by
// its package initialiser: no Store to it, and no map update / delete / element store through a value loaded
// from it, anywhere else in the module.
func (e *Engine) globalReadOnlyObligations(want map[string]bool) []*Obligation {
	var out []*Obligation
	seen := map[*ssa.Global]bool{}
	for _, gi := range e.GlobalInvs {
		if !hasProp(gi.Props, want) || gi.Pkg == nil {
			continue
		}
		sp := e.Prog.Package(gi.Pkg)
		for _, name := range identsOf(gi.E) {
			g, ok := sp.Members[name].(*ssa.Global)
			if !ok || seen[g] {
				continue
			}
			seen[g] = true
			okAll, msg := true, ""
			for _, p2 := range e.SSAPkgs {
				if !e.inModule(p2.Pkg) {
					continue
				}
				for _, fn := range allFunctions(p2) {
					if fn.Name() == "init" && fn.Pkg == sp && fn.Synthetic != "" {
						continue
					}
					if w := writesGlobal(fn, g); w != "" {
						okAll, msg = false, fmt.Sprintf("%s %s", funcDisplayName(fn), w)
					}
				}
			}
			out = append(out, &Obligation{Name: fmt.Sprintf("%s.%s#structural:written-only-by-init", sp.Pkg.Name(), g.Name()), Func: sp.Pkg.Name() + ".init", Kind: "structural",
				Props: gi.Props, Structu: true, StructOK: okAll, StructMsg: msg, Src: "package-level variable " + g.Name() + " is never written after initialisation"})
		}
	}
	return out
}

func identsOf(x spec.Expr) []string {
	var out []string
	var walk func(x spec.Expr)
	walk = func(x spec.Expr) {
		switch x := x.(type) {
		case *spec.Ident:
			out = append(out, x.Name)
		case *spec.Call:
			for _, a := range x.Args {
				walk(a)
			}
		case *spec.Unary:
			walk(x.X)
		case *spec.Binary:
			walk(x.X)
			walk(x.Y)
		case *spec.Index:
			walk(x.X)
			walk(x.I)
		case *spec.Slice:
			walk(x.X)
		case *spec.Sel:
			walk(x.X)
		case *spec.Quant:
			walk(x.Body)
		}
	}
	walk(x)
	return out
}

func loadsFrom(v ssa.Value, g *ssa.Global) bool {
	switch v := v.(type) {
	case *ssa.UnOp:
		if v.X == ssa.Value(g) {
			return true
		}
		return loadsFrom(v.X, g)
	case *ssa.IndexAddr:
		return loadsFrom(v.X, g)
	case *ssa.FieldAddr:
		return loadsFrom(v.X, g)
	case *ssa.Slice:
		return loadsFrom(v.X, g)
	}
	return false
}

func writesGlobal(fn *ssa.Function, g *ssa.Global) string {
	for _, b := range fn.Blocks {
		for _, in := range b.Instrs {
			switch in := in.(type) {
			case *ssa.Store:
				if in.Addr == ssa.Value(g) {
					return "stores to " + g.Name()
				}
				if loadsFrom(in.Addr, g) {
					return "stores through " + g.Name()
				}
			case *ssa.MapUpdate:
				if loadsFrom(in.Map, g) {
					return "updates map " + g.Name()
				}
			case *ssa.Call:
				if bi, ok := in.Call.Value.(*ssa.Builtin); ok && (bi.Name() == "delete" || bi.Name() == "copy" || bi.Name() == "clear") && len(in.Call.Args) > 0 && loadsFrom(in.Call.Args[0], g) {
					return bi.Name() + " on " + g.Name()
				}
			}
		}
	}
	return ""
}

// writersObligations: the restricted fields are stored to (directly, or through a slice/map loaded from them)
// only inside the allowed functions and the function literals they contain.
func (e *Engine) writersObligations(want map[string]bool) []*Obligation {
	var out []*Obligation
	for _, w := range e.Writers {
		if !hasProp(w.Props, want) {
			continue
		}
		ok, msg := true, ""
		heapSet := map[string]bool{}
		for _, h := range w.Heaps {
			heapSet[h] = true
		}
		for _, sp := range e.SSAPkgs {
			if !e.inModule(sp.Pkg) {
				continue
			}
			for _, fn := range allFunctions(sp) {
				allowed := false
				for f := fn; f != nil; f = f.Parent() {
					if w.Allowed[f] {
						allowed = true
					}
				}
				if allowed {
					continue
				}
				for _, b := range fn.Blocks {
					for _, in := range b.Instrs {
						st, isStore := in.(*ssa.Store)
						if !isStore {
							continue
						}
						if fa := fieldAddrRoot(st.Addr); fa != nil {
							stt := fa.X.Type().Underlying().(*types.Pointer).Elem()
							if types.Identical(stt, w.Struct) {
								h, _, _ := e.fieldHeap(stt, fa.Field)
								if heapSet[h] {
									ok, msg = false, fmt.Sprintf("%s stores to %s.%s", funcDisplayName(fn), w.Type, fieldNameOf(fa))
								}
							}
						}
					}
				}
			}
		}
		label := w.Label
		if label == "" {
			label = "writers"
		}
		out = append(out, &Obligation{Name: fmt.Sprintf("writers#%s:%s", w.Type, label), Func: "module", Kind: "structural", Props: w.Props,
			Structu: true, StructOK: ok, StructMsg: msg, Src: fmt.Sprintf("fields of %s are written only by %v", w.Type, w.Only)})
	}
	return out
}

// fieldAddrRoot: the struct field a store address ultimately designates (directly or via element/slice of it).
func fieldAddrRoot(v ssa.Value) *ssa.FieldAddr {
	switch v := v.(type) {
	case *ssa.FieldAddr:
		return v
	case *ssa.IndexAddr:
		if u, ok := v.X.(*ssa.UnOp); ok {
			return fieldAddrRoot(u.X)
		}
		return fieldAddrRoot(v.X)
	}
	return nil
}

// checkStoresBeforeCalls <TypeName> <calleePrefix>: no store to a field of the struct type is reachable after a
// call to a callee whose name starts with the prefix (the captured data is complete before processing starts).
func (e *Engine) checkStoresBeforeCalls(fn *ssa.Function, args []string) (bool, string) {
	if len(args) < 2 {
		return false, "stores_before_calls needs a type name and a callee prefix"
	}
	tname, prefix := args[0], args[1]
	isTargetStore := func(in ssa.Instruction) bool {
		st, ok := in.(*ssa.Store)
		if !ok {
			return false
		}
		fa := fieldAddrRoot(st.Addr)
		if fa == nil {
			return false
		}
		stt := fa.X.Type().Underlying().(*types.Pointer).Elem()
		if n, ok := stt.(*types.Named); ok {
			return n.Obj().Name() == tname
		}
		return false
	}
	// blocks reachable from b (excluding b's own earlier instructions)
	for _, b := range fn.Blocks {
		for i, in := range b.Instrs {
			c, ok := in.(*ssa.Call)
			if !ok || !strings.HasPrefix(calleeName(&c.Call), prefix) {
				continue
			}
			for _, later := range b.Instrs[i+1:] {
				if isTargetStore(later) {
					return false, fmt.Sprintf("a store to %s follows the call to %s", tname, calleeName(&c.Call))
				}
			}
			seen := map[*ssa.BasicBlock]bool{}
			stack := append([]*ssa.BasicBlock{}, b.Succs...)
			for len(stack) > 0 {
				n := stack[len(stack)-1]
				stack = stack[:len(stack)-1]
				if seen[n] {
					continue
				}
				seen[n] = true
				for _, in2 := range n.Instrs {
					if isTargetStore(in2) {
						return false, fmt.Sprintf("a store to %s is reachable after the call to %s", tname, calleeName(&c.Call))
					}
				}
				stack = append(stack, n.Succs...)
			}
		}
	}
	return true, ""
}

// checkChanBuffered: `chan_buffered <local>` -- the channel stored in the named local is made with a constant
// capacity of at least one, so a goroutine that sends its single result on it can finish even when nobody receives
// any more (the receiver took another select branch and returned).
func checkChanBuffered(fn *ssa.Function, args []string) (bool, string) {
	if len(args) != 1 {
		return false, "chan_buffered needs the name of the local that holds the channel"
	}
	found := false
	var visit func(f *ssa.Function) (bool, string)
	visit = func(f *ssa.Function) (bool, string) {
		for _, b := range f.Blocks {
			for _, in := range b.Instrs {
				st, ok := in.(*ssa.Store)
				if !ok {
					continue
				}
				al, ok := st.Addr.(*ssa.Alloc)
				if !ok || al.Comment != args[0] {
					continue
				}
				mc, ok := st.Val.(*ssa.MakeChan)
				if !ok {
					continue
				}
				found = true
				c, isConst := mc.Size.(*ssa.Const)
				if !isConst || c.Int64() < 1 {
					return false, fmt.Sprintf("channel %s is made unbuffered (or with a non-constant capacity) at %s: a sender whose receiver has gone blocks forever", args[0], f.Prog.Fset.Position(mc.Pos()))
				}
			}
		}
		return true, ""
	}
	if ok, msg := visit(fn); !ok {
		return false, msg
	}
	if !found {
		return false, fmt.Sprintf("no `%s := make(chan ...)` found in %s (contract no longer binds)", args[0], fn.Name())
	}
	return true, ""
}

// checkSendsSelectable: `sends_selectable <chanField> <doneField>` -- every send on the channel held in struct field
// chanField happens in a select that can also receive from the channel in field doneField (so the sender is
// released when the receiver's loop has ended).
func checkSendsSelectable(fn *ssa.Function, args []string) (bool, string) {
	if len(args) != 2 {
		return false, "sends_selectable needs <chanField> <doneField>"
	}
	fieldOf := func(v ssa.Value) string {
		u, ok := v.(*ssa.UnOp)
		if !ok {
			return ""
		}
		fa, ok := u.X.(*ssa.FieldAddr)
		if !ok {
			return ""
		}
		st, ok := fa.X.Type().Underlying().(*types.Pointer)
		if !ok {
			return ""
		}
		su, ok := st.Elem().Underlying().(*types.Struct)
		if !ok {
			return ""
		}
		return su.Field(fa.Field).Name()
	}
	sends := 0
	for _, b := range fn.Blocks {
		for _, in := range b.Instrs {
			switch in := in.(type) {
			case *ssa.Send:
				if fieldOf(in.Chan) == args[0] {
					return false, fmt.Sprintf("unconditional send on %s at %s: blocks forever once the receiving loop has ended", args[0], fn.Prog.Fset.Position(in.Pos()))
				}
			case *ssa.Select:
				hasSend, hasDone := false, false
				for _, st := range in.States {
					if st.Dir == types.SendOnly && fieldOf(st.Chan) == args[0] {
						hasSend = true
					}
					if st.Dir == types.RecvOnly && fieldOf(st.Chan) == args[1] {
						hasDone = true
					}
				}
				if hasSend {
					sends++
					if !hasDone {
						return false, fmt.Sprintf("send on %s in a select without a receive from %s at %s", args[0], args[1], fn.Prog.Fset.Position(in.Pos()))
					}
				}
			}
		}
	}
	if sends == 0 {
		return false, fmt.Sprintf("no send on field %s found in %s (contract no longer binds)", args[0], fn.Name())
	}
	return true, ""
}

// checkLocksReleased: `locks_released` -- on every path to a return, each Lock/RLock taken in this function has been
// undone by the matching Unlock/RUnlock (directly or by a defer registered on that path). A may-hold analysis: a
// lock possibly still held at a return is a violation (the next RLock/Lock on it blocks forever).
func checkLocksReleased(fn *ssa.Function) (bool, string) {
	type st struct{ held, deferred map[string]bool }
	clone := func(a st) st {
		n := st{map[string]bool{}, map[string]bool{}}
		for k := range a.held {
			n.held[k] = true
		}
		for k := range a.deferred {
			n.deferred[k] = true
		}
		return n
	}
	key := func(call *ssa.CallCommon) (string, string) {
		name := calleeName(call)
		if name != "Lock" && name != "RLock" && name != "Unlock" && name != "RUnlock" {
			return "", ""
		}
		if len(call.Args) == 0 {
			return "", ""
		}
		k := valuePath(call.Args[0])
		if fa, ok := call.Args[0].(*ssa.FieldAddr); ok {
			k = valuePath(fa.X) + "." + fieldNameOf(fa)
		}
		return name, k
	}
	in := map[*ssa.BasicBlock]st{fn.Blocks[0]: {map[string]bool{}, map[string]bool{}}}
	work := []*ssa.BasicBlock{fn.Blocks[0]}
	msg := ""
	for steps := 0; len(work) > 0 && steps < 10000; steps++ {
		b := work[0]
		work = work[1:]
		cur := clone(in[b])
		for _, instr := range b.Instrs {
			switch instr := instr.(type) {
			case *ssa.Call:
				if name, k := key(&instr.Call); name != "" {
					if name == "Lock" || name == "RLock" {
						cur.held[k] = true
					} else {
						delete(cur.held, k)
					}
				}
			case *ssa.Defer:
				if name, k := key(&instr.Call); name == "Unlock" || name == "RUnlock" {
					cur.deferred[k] = true
				}
			case *ssa.Return:
				for k := range cur.held {
					if !cur.deferred[k] && msg == "" {
						msg = fmt.Sprintf("lock %s may still be held at the return at %s", k, fn.Prog.Fset.Position(instr.Pos()))
					}
				}
			}
		}
		for _, succ := range b.Succs {
			old, seen := in[succ]
			merged := clone(cur)
			changed := !seen
			if seen {
				for k := range old.held {
					merged.held[k] = true
				}
				// a defer counts only if registered on every path: intersect
				for k := range merged.deferred {
					if !old.deferred[k] {
						delete(merged.deferred, k)
					}
				}
				if len(merged.held) != len(old.held) || len(merged.deferred) != len(old.deferred) {
					changed = true
				}
			}
			if changed {
				in[succ] = merged
				work = append(work, succ)
			}
		}
	}
	return msg == "", msg
}

// broadcastOnly: every (*sync.Cond).Signal / Broadcast call in the module whose receiver is loaded from the declared
// field is inspected; a Signal is a violation, and at least one Broadcast must exist (else the declaration is stale).
func (e *Engine) broadcastOnly(g GuardInfo, st types.Type, u *types.Struct) []*Obligation {
	idx := -1
	for i := 0; i < u.NumFields(); i++ {
		if u.Field(i).Name() == g.Lock {
			idx = i
		}
	}
	name := fmt.Sprintf("wake:%s.%s:every-wake-up-is-a-broadcast", g.Type, g.Lock)
	if idx < 0 {
		return []*Obligation{{Name: name, Func: g.Type, Kind: "guard", Props: g.Props, Structu: true, StructOK: false,
			StructMsg: "CONTRACT-STALE broadcast_only: field not found", Src: "broadcast_only"}}
	}
	var fromField func(v ssa.Value, depth int) bool
	fromField = func(v ssa.Value, depth int) bool {
		if depth > 6 {
			return false
		}
		switch v := v.(type) {
		case *ssa.FieldAddr:
			pt, ok := v.X.Type().Underlying().(*types.Pointer)
			return ok && types.Identical(pt.Elem(), st) && v.Field == idx
		case *ssa.UnOp:
			if v.Op == token.MUL {
				if al, ok := v.X.(*ssa.Alloc); ok && al.Referrers() != nil {
					for _, r := range *al.Referrers() {
						if sv, ok := r.(*ssa.Store); ok && sv.Addr == al && fromField(sv.Val, depth+1) {
							return true
						}
					}
					return false
				}
				return fromField(v.X, depth+1)
			}
		}
		return false
	}
	var signals []string
	broadcasts := 0
	for _, sp := range e.SSAPkgs {
		if !e.inModule(sp.Pkg) {
			continue
		}
		for _, fn := range allFunctions(sp) {
			for _, b := range fn.Blocks {
				for _, in := range b.Instrs {
					var cc *ssa.CallCommon
					switch in := in.(type) {
					case *ssa.Call:
						cc = &in.Call
					case *ssa.Defer:
						cc = &in.Call
					case *ssa.Go:
						cc = &in.Call
					}
					if cc == nil || len(cc.Args) == 0 {
						continue
					}
					f := staticFn(cc)
					if f == nil || f.Pkg == nil || f.Pkg.Pkg.Path() != "sync" || !fromField(cc.Args[0], 0) {
						continue
					}
					switch f.Name() {
					case "Broadcast":
						broadcasts++
					case "Signal":
						p := e.Fset.Position(in.Pos())
						signals = append(signals, fmt.Sprintf("%s:%d", shortFile(p.Filename), p.Line))
					}
				}
			}
		}
	}
	msg := ""
	ok := len(signals) == 0 && broadcasts > 0
	if len(signals) > 0 {
		msg = fmt.Sprintf("%s.%s is woken with Signal at %s: a waiter of another kind may consume the wake-up (lost wake-up)", g.Type, g.Lock, strings.Join(signals, ", "))
	} else if broadcasts == 0 {
		msg = "CONTRACT-STALE broadcast_only: no Broadcast on this field found"
	}
	return []*Obligation{{Name: name, Func: g.Type, Kind: "guard", Props: g.Props, Structu: true, StructOK: ok, StructMsg: msg,
		Src: fmt.Sprintf("broadcast_only %s.%s (%d broadcast sites)", g.Type, g.Lock, broadcasts)}}
}

// checkNoPackageState: fn, its function literals and the module functions it calls statically (transitively) mention
// no package-level variable of the module except the allowed ones (read-only tables, logging switches). A result that
// may only depend on the arguments cannot be taken from, or leaked into, state shared between connections: no memo,
// no pool, no scratch buffer at package level.
func (e *Engine) checkNoPackageState(fn *ssa.Function, allowed []string) (bool, string) {
	al := map[string]bool{}
	for _, a := range allowed {
		al[a] = true
	}
	seen := map[*ssa.Function]bool{}
	var bad []string
	var visit func(f *ssa.Function, depth int)
	visit = func(f *ssa.Function, depth int) {
		if f == nil || seen[f] || len(f.Blocks) == 0 || depth > 12 {
			return
		}
		seen[f] = true
		for _, b := range f.Blocks {
			for _, in := range b.Instrs {
				for _, op := range in.Operands(nil) {
					if op == nil || *op == nil {
						continue
					}
					if g, ok := (*op).(*ssa.Global); ok && g.Pkg != nil && e.inModule(g.Pkg.Pkg) {
						if !al[g.Name()] && !al[g.Pkg.Pkg.Name()+"."+g.Name()] {
							p := e.Fset.Position(in.Pos())
							bad = append(bad, fmt.Sprintf("%s.%s at %s:%d", g.Pkg.Pkg.Name(), g.Name(), shortFile(p.Filename), p.Line))
						}
					}
				}
				var cc *ssa.CallCommon
				switch in := in.(type) {
				case *ssa.Call:
					cc = &in.Call
				case *ssa.Defer:
					cc = &in.Call
				case *ssa.Go:
					cc = &in.Call
				case *ssa.MakeClosure:
					if cf, ok := in.Fn.(*ssa.Function); ok {
						visit(cf, depth+1)
					}
				}
				if cc != nil {
					if cf := staticFn(cc); cf != nil && cf.Pkg != nil && e.inModule(cf.Pkg.Pkg) {
						visit(cf, depth+1)
					}
				}
			}
		}
		for _, an := range f.AnonFuncs {
			visit(an, depth+1)
		}
	}
	visit(fn, 0)
	if len(bad) == 0 {
		return true, ""
	}
	sort.Strings(bad)
	if len(bad) > 6 {
		bad = append(bad[:6], "...")
	}
	return false, "uses package-level state: " + strings.Join(bad, ", ")
}

// checkPoolPutReleases <field>: an object that the function hands to a sync.Pool (Put) after loading it from the
// receiver's <field> must no longer be referenced from that field when the function returns -- on every path through a
// Put the field is overwritten with nil. (The next user of the pool would otherwise share the object with this owner.)
// Dataflow: mayPut is a may-fact (joined with OR), cleared is a must-fact (joined with AND); checked at every return.
func checkPoolPutReleases(fn *ssa.Function, args []string) (bool, string) {
	if len(args) != 1 {
		return false, "pool_put_releases needs the field name"
	}
	field := args[0]
	isField := func(v ssa.Value) bool {
		fa, ok := v.(*ssa.FieldAddr)
		return ok && fieldNameOf(fa) == field
	}
	var from func(v ssa.Value, depth int) bool
	from = func(v ssa.Value, depth int) bool {
		if depth > 8 {
			return false
		}
		switch v := v.(type) {
		case *ssa.MakeInterface:
			return from(v.X, depth+1)
		case *ssa.ChangeType:
			return from(v.X, depth+1)
		case *ssa.Phi:
			for _, ed := range v.Edges {
				if from(ed, depth+1) {
					return true
				}
			}
		case *ssa.UnOp:
			if v.Op != token.MUL {
				return false
			}
			if isField(v.X) {
				return true
			}
			if al, ok := v.X.(*ssa.Alloc); ok && al.Referrers() != nil {
				for _, r := range *al.Referrers() {
					if st, ok := r.(*ssa.Store); ok && st.Addr == al && from(st.Val, depth+1) {
						return true
					}
				}
			}
		}
		return false
	}
	type fact struct{ mayPut, cleared bool }
	puts := 0
	transfer := func(b *ssa.BasicBlock, in fact) (fact, string) {
		cur := in
		for _, instr := range b.Instrs {
			switch instr := instr.(type) {
			case *ssa.Call:
				if f := staticFn(&instr.Call); f != nil && f.Pkg != nil && f.Pkg.Pkg.Path() == "sync" && f.Name() == "Put" && len(instr.Call.Args) == 2 && from(instr.Call.Args[1], 0) {
					cur.mayPut = true
					cur.cleared = false
					puts++
				}
			case *ssa.Store:
				if isField(instr.Addr) {
					if c, ok := instr.Val.(*ssa.Const); ok && c.IsNil() {
						cur.cleared = true
					} else {
						cur.cleared = false
					}
				}
			case *ssa.Return:
				if cur.mayPut && !cur.cleared {
					return cur, "returns with ." + field + " still referencing an object that was put into a pool"
				}
			}
		}
		return cur, ""
	}
	out := map[*ssa.BasicBlock]fact{}
	seen := map[*ssa.BasicBlock]bool{}
	msg := ""
	for iter, changed := 0, true; changed && iter < 60; iter++ {
		changed = false
		for _, b := range fn.Blocks {
			in := fact{cleared: true}
			first := true
			for _, p := range b.Preds {
				if !seen[p] {
					continue
				}
				po := out[p]
				if first {
					in, first = po, false
				} else {
					in.mayPut = in.mayPut || po.mayPut
					in.cleared = in.cleared && po.cleared
				}
			}
			if b != fn.Blocks[0] && first {
				continue // not reached yet
			}
			if b == fn.Blocks[0] {
				in = fact{}
			}
			no, m := transfer(b, in)
			if m != "" {
				msg = m
			}
			if !seen[b] || out[b] != no {
				seen[b], out[b], changed = true, no, true
			}
		}
	}
	if msg != "" {
		return false, msg
	}
	if puts == 0 {
		return false, "CONTRACT-STALE pool_put_releases: no Put of a value loaded from ." + field + " found"
	}
	return true, ""
}
