package vc

// StructuralObligations computes obligations decided by dataflow over SSA (no SMT).
func (e *Engine) StructuralObligations(want map[string]bool) ([]*Obligation, error) {
	var out []*Obligation
	return out, nil
}
