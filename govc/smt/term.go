// Package smt: sorts, hash-consed terms with light simplification, interval
// bounds, and SMT-LIB printing.
package smt

import (
	"fmt"
	"math/big"
	"sort"
	"strings"
)

// ---------- sorts ----------

type SortKind int

const (
	KInt SortKind = iota
	KBool
	KUnint // uninterpreted sort (Ref, Iface, Fn, ...)
	KSeq
	KArr
	KData
)

type Sort struct {
	Kind SortKind
	Name string // for KUnint, KData
	Args []*Sort
	str  string
}

var sortTab = map[string]*Sort{}

func mkSort(k SortKind, name string, args ...*Sort) *Sort {
	var b strings.Builder
	switch k {
	case KInt:
		b.WriteString("Int")
	case KBool:
		b.WriteString("Bool")
	case KUnint, KData:
		b.WriteString(name)
	case KSeq:
		b.WriteString("(Seq " + args[0].str + ")")
	case KArr:
		b.WriteString("(Array " + args[0].str + " " + args[1].str + ")")
	}
	s := b.String()
	if x, ok := sortTab[s]; ok {
		return x
	}
	x := &Sort{Kind: k, Name: name, Args: args, str: s}
	sortTab[s] = x
	return x
}

var (
	Int   = mkSort(KInt, "")
	Bool  = mkSort(KBool, "")
	Ref   = mkSort(KUnint, "Ref")
	Iface = mkSort(KUnint, "Iface")
	Fn    = mkSort(KUnint, "Fn")
)

func Unint(name string) *Sort { return mkSort(KUnint, name) }
func Seq(e *Sort) *Sort       { return mkSort(KSeq, "", e) }
func Arr(k, v *Sort) *Sort    { return mkSort(KArr, "", k, v) }
func (s *Sort) String() string {
	if s == nil {
		return "<nil-sort>"
	}
	return s.str
}

// Datatypes (Go struct values). Registered globally; fields in order.
type DataDef struct {
	Name   string
	Fields []string // selector names
	Sorts  []*Sort
	Sort   *Sort
}

var DataDefs = map[string]*DataDef{}
var DataOrder []string

func Data(name string, fields []string, sorts []*Sort) *Sort {
	if d, ok := DataDefs[name]; ok {
		return d.Sort
	}
	s := mkSort(KData, name)
	DataDefs[name] = &DataDef{Name: name, Fields: fields, Sorts: sorts, Sort: s}
	DataOrder = append(DataOrder, name)
	return s
}

// ---------- terms ----------

type Term struct {
	Op   string // "const","var","app", or builtin op name
	Name string // var / uf / datatype ctor / selector name
	Args []*Term
	Sort *Sort
	Int  *big.Int // for Op=="int"
	id   int
	key  string
	// Lo/Hi for vars with a declared machine range (nil = unbounded)
	Lo, Hi *big.Int
	Quant  []*Term // bound variables for forall/exists
	Pats   [][]*Term
}

var termTab = map[string]*Term{}
var termCount int

func intern(t *Term) *Term {
	var b strings.Builder
	b.WriteString(t.Op)
	b.WriteByte('|')
	b.WriteString(t.Name)
	b.WriteByte('|')
	if t.Int != nil {
		b.WriteString(t.Int.String())
	}
	b.WriteByte('|')
	b.WriteString(t.Sort.str)
	for _, a := range t.Args {
		fmt.Fprintf(&b, ",%d", a.id)
	}
	for _, q := range t.Quant {
		fmt.Fprintf(&b, ";%d", q.id)
	}
	for _, p := range t.Pats {
		b.WriteString("/p")
		for _, x := range p {
			fmt.Fprintf(&b, ",%d", x.id)
		}
	}
	k := b.String()
	if x, ok := termTab[k]; ok {
		return x
	}
	termCount++
	t.id = termCount
	t.key = k
	termTab[k] = t
	return t
}

func (t *Term) ID() int { return t.id }

func IntC(v int64) *Term     { return IntB(big.NewInt(v)) }
func IntB(v *big.Int) *Term  { return intern(&Term{Op: "int", Int: new(big.Int).Set(v), Sort: Int}) }
func (t *Term) IsInt() bool  { return t.Op == "int" }
func (t *Term) IsTrue() bool { return t.Op == "true" }
func (t *Term) IsFalse() bool {
	return t.Op == "false"
}

var (
	True  = intern(&Term{Op: "true", Sort: Bool})
	False = intern(&Term{Op: "false", Sort: Bool})
)

func BoolC(b bool) *Term {
	if b {
		return True
	}
	return False
}

var freshCtr = map[string]int{}

// Var returns a (non-fresh) named constant.
func Var(name string, s *Sort) *Term { return intern(&Term{Op: "var", Name: name, Sort: s}) }

// VarR is an Int constant with a machine range.
func VarR(name string, lo, hi *big.Int) *Term {
	return intern(&Term{Op: "var", Name: name, Sort: Int, Lo: lo, Hi: hi})
}

func FreshName(base string) string {
	base = sanitize(base)
	freshCtr[base]++
	return fmt.Sprintf("%s!%d", base, freshCtr[base])
}

func Fresh(base string, s *Sort) *Term { return Var(FreshName(base), s) }

func sanitize(s string) string {
	var b strings.Builder
	for _, r := range s {
		switch {
		case r >= 'a' && r <= 'z', r >= 'A' && r <= 'Z', r >= '0' && r <= '9', r == '_', r == '.', r == '$', r == '!':
			b.WriteRune(r)
		default:
			b.WriteByte('_')
		}
	}
	if b.Len() == 0 {
		return "x"
	}
	return b.String()
}

// UF application. Signature is registered on first use.
type UFDecl struct {
	Name string
	Args []*Sort
	Res  *Sort
}

var UFs = map[string]*UFDecl{}

func App(name string, res *Sort, args ...*Term) *Term {
	name = sanitize(name)
	if d, ok := UFs[name]; ok {
		if d.Res != res || len(d.Args) != len(args) {
			panic(fmt.Sprintf("UF %s used with inconsistent signature", name))
		}
		for i := range args {
			if d.Args[i] != args[i].Sort {
				panic(fmt.Sprintf("UF %s arg %d: sort %s vs %s", name, i, d.Args[i], args[i].Sort))
			}
		}
	} else {
		d := &UFDecl{Name: name, Res: res}
		for _, a := range args {
			d.Args = append(d.Args, a.Sort)
		}
		UFs[name] = d
	}
	if len(args) == 0 {
		return Var(name, res)
	}
	return intern(&Term{Op: "app", Name: name, Args: args, Sort: res})
}

func mk(op string, s *Sort, args ...*Term) *Term {
	return intern(&Term{Op: op, Args: args, Sort: s})
}

// ---------- boolean ----------

func Not(a *Term) *Term {
	switch a.Op {
	case "true":
		return False
	case "false":
		return True
	case "not":
		return a.Args[0]
	}
	return mk("not", Bool, a)
}

func And(xs ...*Term) *Term {
	var out []*Term
	seen := map[int]bool{}
	for _, x := range xs {
		if x.IsTrue() {
			continue
		}
		if x.IsFalse() {
			return False
		}
		if x.Op == "and" {
			for _, y := range x.Args {
				if !seen[y.id] {
					seen[y.id] = true
					out = append(out, y)
				}
			}
			continue
		}
		if !seen[x.id] {
			seen[x.id] = true
			out = append(out, x)
		}
	}
	for _, x := range out {
		if seen[Not(x).id] {
			return False
		}
	}
	switch len(out) {
	case 0:
		return True
	case 1:
		return out[0]
	}
	return mk("and", Bool, out...)
}

func Or(xs ...*Term) *Term {
	var out []*Term
	seen := map[int]bool{}
	for _, x := range xs {
		if x.IsFalse() {
			continue
		}
		if x.IsTrue() {
			return True
		}
		if x.Op == "or" {
			for _, y := range x.Args {
				if !seen[y.id] {
					seen[y.id] = true
					out = append(out, y)
				}
			}
			continue
		}
		if !seen[x.id] {
			seen[x.id] = true
			out = append(out, x)
		}
	}
	for _, x := range out {
		if seen[Not(x).id] {
			return True
		}
	}
	switch len(out) {
	case 0:
		return False
	case 1:
		return out[0]
	}
	return mk("or", Bool, out...)
}

func Implies(a, b *Term) *Term {
	if a.IsTrue() {
		return b
	}
	if a.IsFalse() || b.IsTrue() {
		return True
	}
	if b.IsFalse() {
		return Not(a)
	}
	return mk("=>", Bool, a, b)
}

func Iff(a, b *Term) *Term { return Eq(a, b) }

func Ite(c, a, b *Term) *Term {
	if c.IsTrue() {
		return a
	}
	if c.IsFalse() {
		return b
	}
	if a == b {
		return a
	}
	if a.Sort == Bool {
		if a.IsTrue() && b.IsFalse() {
			return c
		}
		if a.IsFalse() && b.IsTrue() {
			return Not(c)
		}
	}
	if a.Sort != b.Sort {
		panic(fmt.Sprintf("ite sort mismatch %s vs %s", a.Sort, b.Sort))
	}
	return mk("ite", a.Sort, c, a, b)
}

func Eq(a, b *Term) *Term {
	if a.Sort != b.Sort {
		panic(fmt.Sprintf("eq sort mismatch: %s : %s vs %s : %s", a, a.Sort, b, b.Sort))
	}
	if a == b {
		return True
	}
	if a.Op == "int" && b.Op == "int" {
		return BoolC(a.Int.Cmp(b.Int) == 0)
	}
	if a.Sort == Bool {
		if a.IsTrue() {
			return b
		}
		if b.IsTrue() {
			return a
		}
		if a.IsFalse() {
			return Not(b)
		}
		if b.IsFalse() {
			return Not(a)
		}
	}
	if a.Sort == Int {
		la, ha := Bounds(a)
		lb, hb := Bounds(b)
		if (ha != nil && lb != nil && ha.Cmp(lb) < 0) || (hb != nil && la != nil && hb.Cmp(la) < 0) {
			return False
		}
	}
	// seq literal comparisons of different known lengths
	if a.Sort.Kind == KSeq {
		if x, ok := seqLit(a); ok {
			if y, ok := seqLit(b); ok {
				if len(x) != len(y) {
					return False
				}
				eq := true
				for i := range x {
					if !(x[i].IsInt() && y[i].IsInt()) {
						eq = false
						break
					}
					if x[i].Int.Cmp(y[i].Int) != 0 {
						return False
					}
				}
				if eq {
					return True
				}
			}
		}
	}
	if a.id > b.id {
		a, b = b, a
	}
	return mk("=", Bool, a, b)
}

func Neq(a, b *Term) *Term { return Not(Eq(a, b)) }

func Distinct(xs ...*Term) *Term {
	if len(xs) < 2 {
		return True
	}
	return mk("distinct", Bool, xs...)
}

// ---------- arithmetic ----------

func Add(xs ...*Term) *Term {
	c := new(big.Int)
	var out []*Term
	for _, x := range xs {
		if x.Op == "+" {
			for _, y := range x.Args {
				if y.Op == "int" {
					c.Add(c, y.Int)
				} else {
					out = append(out, y)
				}
			}
			continue
		}
		if x.Op == "int" {
			c.Add(c, x.Int)
		} else {
			out = append(out, x)
		}
	}
	if c.Sign() != 0 || len(out) == 0 {
		out = append(out, IntB(c))
	}
	if len(out) == 1 {
		return out[0]
	}
	return mk("+", Int, out...)
}

func Neg(a *Term) *Term {
	if a.Op == "int" {
		return IntB(new(big.Int).Neg(a.Int))
	}
	return Mul(IntC(-1), a)
}

func Sub(a, b *Term) *Term {
	if a == b {
		return IntC(0)
	}
	return Add(a, Neg(b))
}

func Mul(a, b *Term) *Term {
	if a.Op == "int" && b.Op == "int" {
		return IntB(new(big.Int).Mul(a.Int, b.Int))
	}
	if b.Op == "int" {
		a, b = b, a
	}
	if a.Op == "int" {
		if a.Int.Sign() == 0 {
			return IntC(0)
		}
		if a.Int.Cmp(big.NewInt(1)) == 0 {
			return b
		}
		if b.Op == "*" && b.Args[0].Op == "int" {
			return Mul(IntB(new(big.Int).Mul(a.Int, b.Args[0].Int)), b.Args[1])
		}
		if b.Op == "+" {
			var parts []*Term
			for _, y := range b.Args {
				parts = append(parts, Mul(a, y))
			}
			return Add(parts...)
		}
	}
	return mk("*", Int, a, b)
}

// Div/Mod are SMT-LIB (floor for positive divisor) division.
func Div(a, b *Term) *Term {
	if a.Op == "int" && b.Op == "int" && b.Int.Sign() > 0 {
		q, _ := new(big.Int).DivMod(a.Int, b.Int, new(big.Int))
		return IntB(q)
	}
	if b.Op == "int" && b.Int.Cmp(big.NewInt(1)) == 0 {
		return a
	}
	if b.Op == "int" && b.Int.Sign() > 0 {
		lo, hi := Bounds(a)
		if lo != nil && hi != nil && lo.Sign() >= 0 && hi.Cmp(b.Int) < 0 {
			return IntC(0)
		}
	}
	return mk("div", Int, a, b)
}

func Mod(a, b *Term) *Term {
	if a.Op == "int" && b.Op == "int" && b.Int.Sign() > 0 {
		_, m := new(big.Int).DivMod(a.Int, b.Int, new(big.Int))
		return IntB(m)
	}
	if b.Op == "int" && b.Int.Sign() > 0 {
		lo, hi := Bounds(a)
		if lo != nil && hi != nil && lo.Sign() >= 0 && hi.Cmp(b.Int) < 0 {
			return a
		}
		// (x*c + y) mod m where m | c  ==> y mod m
		if a.Op == "+" {
			var rest []*Term
			changed := false
			for _, y := range a.Args {
				if y.Op == "*" && y.Args[0].Op == "int" && new(big.Int).Mod(y.Args[0].Int, b.Int).Sign() == 0 {
					changed = true
					continue
				}
				if y.Op == "int" && new(big.Int).Mod(y.Int, b.Int).Sign() == 0 && y.Int.Sign() != 0 {
					changed = true
					continue
				}
				rest = append(rest, y)
			}
			if changed {
				return Mod(Add(rest...), b)
			}
		}
		if a.Op == "*" && a.Args[0].Op == "int" && new(big.Int).Mod(a.Args[0].Int, b.Int).Sign() == 0 {
			return IntC(0)
		}
	}
	return mk("mod", Int, a, b)
}

func cmpConst(a, b *Term, op string) (*Term, bool) {
	la, ha := Bounds(a)
	lb, hb := Bounds(b)
	switch op {
	case "<":
		if ha != nil && lb != nil && ha.Cmp(lb) < 0 {
			return True, true
		}
		if la != nil && hb != nil && la.Cmp(hb) >= 0 {
			return False, true
		}
	case "<=":
		if ha != nil && lb != nil && ha.Cmp(lb) <= 0 {
			return True, true
		}
		if la != nil && hb != nil && la.Cmp(hb) > 0 {
			return False, true
		}
	}
	return nil, false
}

func Lt(a, b *Term) *Term {
	if a == b {
		return False
	}
	if r, ok := cmpConst(a, b, "<"); ok {
		return r
	}
	return mk("<", Bool, a, b)
}
func Le(a, b *Term) *Term {
	if a == b {
		return True
	}
	if r, ok := cmpConst(a, b, "<="); ok {
		return r
	}
	return mk("<=", Bool, a, b)
}
func Gt(a, b *Term) *Term { return Lt(b, a) }
func Ge(a, b *Term) *Term { return Le(b, a) }

func Min(a, b *Term) *Term { return Ite(Le(a, b), a, b) }
func Max(a, b *Term) *Term { return Ite(Le(a, b), b, a) }

// Bounds computes a conservative interval for an Int term (nil = unbounded).
var boundsCache = map[int][2]*big.Int{}

func Bounds(t *Term) (lo, hi *big.Int) {
	if t.Sort != Int {
		return nil, nil
	}
	if b, ok := boundsCache[t.id]; ok {
		return b[0], b[1]
	}
	lo, hi = bounds1(t)
	boundsCache[t.id] = [2]*big.Int{lo, hi}
	return
}

func bounds1(t *Term) (lo, hi *big.Int) {
	switch t.Op {
	case "int":
		return t.Int, t.Int
	case "var":
		return t.Lo, t.Hi
	case "+":
		lo, hi = new(big.Int), new(big.Int)
		for _, a := range t.Args {
			l, h := Bounds(a)
			if l == nil {
				lo = nil
			} else if lo != nil {
				lo = new(big.Int).Add(lo, l)
			}
			if h == nil {
				hi = nil
			} else if hi != nil {
				hi = new(big.Int).Add(hi, h)
			}
		}
		return
	case "*":
		if t.Args[0].Op == "int" {
			c := t.Args[0].Int
			l, h := Bounds(t.Args[1])
			if c.Sign() >= 0 {
				if l != nil {
					lo = new(big.Int).Mul(c, l)
				}
				if h != nil {
					hi = new(big.Int).Mul(c, h)
				}
			} else {
				if h != nil {
					lo = new(big.Int).Mul(c, h)
				}
				if l != nil {
					hi = new(big.Int).Mul(c, l)
				}
			}
			return
		}
		return nil, nil
	case "mod":
		if t.Args[1].Op == "int" && t.Args[1].Int.Sign() > 0 {
			return big.NewInt(0), new(big.Int).Sub(t.Args[1].Int, big.NewInt(1))
		}
	case "div":
		if t.Args[1].Op == "int" && t.Args[1].Int.Sign() > 0 {
			l, h := Bounds(t.Args[0])
			c := t.Args[1].Int
			if l != nil {
				lo, _ = new(big.Int).DivMod(l, c, new(big.Int))
			}
			if h != nil {
				hi, _ = new(big.Int).DivMod(h, c, new(big.Int))
			}
			return
		}
	case "ite":
		l1, h1 := Bounds(t.Args[1])
		l2, h2 := Bounds(t.Args[2])
		if l1 != nil && l2 != nil {
			lo = l1
			if l2.Cmp(l1) < 0 {
				lo = l2
			}
		}
		if h1 != nil && h2 != nil {
			hi = h1
			if h2.Cmp(h1) > 0 {
				hi = h2
			}
		}
		return
	case "seq.len":
		return big.NewInt(0), MaxLen
	case "app":
		return t.Lo, t.Hi
	}
	return t.Lo, t.Hi
}

// TermFacts: closed facts attached to a term; asserted in every query in which the term occurs.
var TermFacts = map[int][]*Term{}

func AddFact(t *Term, fact *Term) { TermFacts[t.id] = append(TermFacts[t.id], fact) }

// GroundAxiomHook lets the client add closed facts about an application term that occurs in a query.
// The facts may only mention symbols that already occur in the query or are registered UFs with ground args.
var GroundAxiomHook func(t *Term) []*Term

// MaxLen: modelling assumption -- every sequence (Go slice, string, ghost history) has a length that fits in int.
var MaxLen = new(big.Int).Sub(new(big.Int).Lsh(big.NewInt(1), 63), big.NewInt(1))

// WithRange returns t annotated (for non-interned info we keep a side table).
var rangeFacts = map[int][2]*big.Int{}
var rangeTerms = map[int]*Term{}

// SetRange records a known machine range for a term (e.g. a heap select of a uint16 field).
// It is only a hint for simplification; the corresponding assumption must be added by the caller.
func SetRange(t *Term, lo, hi *big.Int) {
	if t.Op == "int" {
		return
	}
	if _, ok := boundsCache[t.id]; ok {
		// merge
		l0, h0 := Bounds(t)
		if l0 != nil && (lo == nil || l0.Cmp(lo) > 0) {
			lo = l0
		}
		if h0 != nil && (hi == nil || h0.Cmp(hi) < 0) {
			hi = h0
		}
	}
	boundsCache[t.id] = [2]*big.Int{lo, hi}
	if t.Op != "var" || t.Lo == nil {
		rangeFacts[t.id] = [2]*big.Int{lo, hi}
		rangeTerms[t.id] = t
	}
}

// ---------- sequences ----------

func SeqEmpty(elem *Sort) *Term { return mk("seq.empty", Seq(elem)) }
func SeqUnit(x *Term) *Term     { return mk("seq.unit", Seq(x.Sort), x) }

func SeqConcat(xs ...*Term) *Term {
	var out []*Term
	var s *Sort
	for _, x := range xs {
		s = x.Sort
		if x.Op == "seq.empty" {
			continue
		}
		if x.Op == "seq.++" {
			out = append(out, x.Args...)
		} else {
			out = append(out, x)
		}
	}
	switch len(out) {
	case 0:
		return mk("seq.empty", s)
	case 1:
		return out[0]
	}
	return mk("seq.++", s, out...)
}

func SeqLitInts(bs []byte) *Term {
	if len(bs) == 0 {
		return SeqEmpty(Int)
	}
	var parts []*Term
	for _, b := range bs {
		parts = append(parts, SeqUnit(IntC(int64(b))))
	}
	return SeqConcat(parts...)
}

func seqLit(t *Term) ([]*Term, bool) {
	switch t.Op {
	case "seq.empty":
		return nil, true
	case "seq.unit":
		return []*Term{t.Args[0]}, true
	case "seq.++":
		var out []*Term
		for _, a := range t.Args {
			if a.Op != "seq.unit" {
				return nil, false
			}
			out = append(out, a.Args[0])
		}
		return out, true
	}
	return nil, false
}

// SeqLit exposes seqLit.
func SeqLit(t *Term) ([]*Term, bool) { return seqLit(t) }

func SeqLen(s *Term) *Term {
	switch s.Op {
	case "seq.empty":
		return IntC(0)
	case "seq.unit":
		return IntC(1)
	case "seq.++":
		var parts []*Term
		for _, a := range s.Args {
			parts = append(parts, SeqLen(a))
		}
		return Add(parts...)
	}
	return mk("seq.len", Int, s)
}

func SeqNth(s, i *Term) *Term {
	if lit, ok := seqLit(s); ok && i.Op == "int" && i.Int.IsInt64() {
		k := i.Int.Int64()
		if k >= 0 && k < int64(len(lit)) {
			return lit[k]
		}
	}
	return mk("seq.nth", s.Sort.Args[0], s, i)
}

// SeqExtract(s, off, len)
func SeqExtract(s, off, n *Term) *Term {
	if off.Op == "int" && off.Int.Sign() == 0 && n == SeqLen(s) {
		return s
	}
	if lit, ok := seqLit(s); ok && off.Op == "int" && n.Op == "int" && off.Int.IsInt64() && n.Int.IsInt64() {
		o, k := off.Int.Int64(), n.Int.Int64()
		if o >= 0 && k >= 0 && o+k <= int64(len(lit)) {
			var parts []*Term
			for _, x := range lit[o : o+k] {
				parts = append(parts, SeqUnit(x))
			}
			if len(parts) == 0 {
				return mk("seq.empty", s.Sort)
			}
			return SeqConcat(parts...)
		}
	}
	return mk("seq.extract", s.Sort, s, off, n)
}

func SeqPrefixOf(p, s *Term) *Term { return mk("seq.prefixof", Bool, p, s) }
func SeqSuffixOf(p, s *Term) *Term { return mk("seq.suffixof", Bool, p, s) }
func SeqContains(s, p *Term) *Term { return mk("seq.contains", Bool, s, p) }
func SeqUpdate(s, i, v *Term) *Term {
	// s[:i] ++ [v] ++ s[i+1:]
	return SeqConcat(SeqExtract(s, IntC(0), i), SeqUnit(v), SeqExtract(s, Add(i, IntC(1)), Sub(SeqLen(s), Add(i, IntC(1)))))
}

// ---------- arrays ----------

func Select(a, i *Term) *Term {
	for a.Op == "store" {
		if a.Args[1] == i {
			return a.Args[2]
		}
		if Eq(a.Args[1], i).IsFalse() {
			a = a.Args[0]
			continue
		}
		break
	}
	if a.Op == "constarr" {
		return a.Args[0]
	}
	return mk("select", a.Sort.Args[1], a, i)
}

func Store(a, i, v *Term) *Term {
	if a.Op == "store" && a.Args[1] == i {
		a = a.Args[0]
	}
	return mk("store", a.Sort, a, i, v)
}

func ConstArr(s *Sort, v *Term) *Term { return mk("constarr", s, v) }

// ---------- datatypes ----------

func Ctor(s *Sort, args ...*Term) *Term {
	d := DataDefs[s.Name]
	if len(args) != len(d.Fields) {
		panic("ctor arity " + s.Name)
	}
	// eta: mk(sel0(x), sel1(x), ...) == x
	if len(args) > 0 && args[0].Op == "sel" && args[0].Args[0].Sort == s {
		x := args[0].Args[0]
		all := true
		for i, a := range args {
			if !(a.Op == "sel" && a.Args[0] == x && a.Name == d.Fields[i]) {
				all = false
				break
			}
		}
		if all {
			return x
		}
	}
	return intern(&Term{Op: "ctor", Name: "mk_" + s.Name, Args: args, Sort: s})
}

func Sel(x *Term, field int) *Term {
	d := DataDefs[x.Sort.Name]
	if x.Op == "ctor" {
		return x.Args[field]
	}
	if x.Op == "ite" {
		return Ite(x.Args[0], Sel(x.Args[1], field), Sel(x.Args[2], field))
	}
	return intern(&Term{Op: "sel", Name: d.Fields[field], Args: []*Term{x}, Sort: d.Sorts[field]})
}

func SetField(x *Term, field int, v *Term) *Term {
	d := DataDefs[x.Sort.Name]
	args := make([]*Term, len(d.Fields))
	for i := range args {
		if i == field {
			args[i] = v
		} else {
			args[i] = Sel(x, i)
		}
	}
	return Ctor(x.Sort, args...)
}

// ---------- quantifiers ----------

func Forall(vars []*Term, body *Term, pats ...[]*Term) *Term {
	if body.IsTrue() {
		return True
	}
	return intern(&Term{Op: "forall", Quant: vars, Args: []*Term{body}, Sort: Bool, Pats: pats})
}
func Exists(vars []*Term, body *Term) *Term {
	if body.IsFalse() {
		return False
	}
	return intern(&Term{Op: "exists", Quant: vars, Args: []*Term{body}, Sort: Bool})
}

// ---------- substitution ----------

func Subst(t *Term, m map[*Term]*Term) *Term {
	cache := map[int]*Term{}
	var rec func(t *Term) *Term
	rec = func(t *Term) *Term {
		if r, ok := m[t]; ok {
			return r
		}
		if len(t.Args) == 0 {
			return t
		}
		if r, ok := cache[t.id]; ok {
			return r
		}
		args := make([]*Term, len(t.Args))
		changed := false
		for i, a := range t.Args {
			args[i] = rec(a)
			if args[i] != a {
				changed = true
			}
		}
		var pats [][]*Term
		for _, p := range t.Pats {
			var np []*Term
			for _, x := range p {
				y := rec(x)
				if y != x {
					changed = true
				}
				np = append(np, y)
			}
			pats = append(pats, np)
		}
		r := t
		if changed {
			r = Rebuild(t, args, pats)
		}
		cache[t.id] = r
		return r
	}
	return rec(t)
}

// Rebuild re-applies the smart constructor for t.Op on new args.
func Rebuild(t *Term, a []*Term, pats [][]*Term) *Term {
	switch t.Op {
	case "not":
		return Not(a[0])
	case "and":
		return And(a...)
	case "or":
		return Or(a...)
	case "=>":
		return Implies(a[0], a[1])
	case "ite":
		return Ite(a[0], a[1], a[2])
	case "=":
		return Eq(a[0], a[1])
	case "+":
		return Add(a...)
	case "*":
		return Mul(a[0], a[1])
	case "div":
		return Div(a[0], a[1])
	case "mod":
		return Mod(a[0], a[1])
	case "<":
		return Lt(a[0], a[1])
	case "<=":
		return Le(a[0], a[1])
	case "seq.++":
		return SeqConcat(a...)
	case "seq.len":
		return SeqLen(a[0])
	case "seq.nth":
		return SeqNth(a[0], a[1])
	case "seq.extract":
		return SeqExtract(a[0], a[1], a[2])
	case "select":
		return Select(a[0], a[1])
	case "store":
		return Store(a[0], a[1], a[2])
	case "ctor":
		return Ctor(t.Sort, a...)
	case "sel":
		d := DataDefs[a[0].Sort.Name]
		for i, f := range d.Fields {
			if f == t.Name {
				return Sel(a[0], i)
			}
		}
	case "forall", "exists":
		return intern(&Term{Op: t.Op, Quant: t.Quant, Args: a, Sort: Bool, Pats: pats})
	}
	return intern(&Term{Op: t.Op, Name: t.Name, Args: a, Sort: t.Sort, Int: t.Int, Lo: t.Lo, Hi: t.Hi})
}

// ---------- printing ----------

func (t *Term) String() string {
	var b strings.Builder
	printTerm(&b, t, nil)
	return b.String()
}

func symName(n string) string {
	for _, r := range n {
		if !(r >= 'a' && r <= 'z' || r >= 'A' && r <= 'Z' || r >= '0' && r <= '9' || r == '_' || r == '.' || r == '$' || r == '!') {
			return "|" + n + "|"
		}
	}
	return n
}

func printTerm(b *strings.Builder, t *Term, names map[int]string) {
	if names != nil {
		if n, ok := names[t.id]; ok {
			b.WriteString(n)
			return
		}
	}
	switch t.Op {
	case "int":
		if t.Int.Sign() < 0 {
			b.WriteString("(- " + new(big.Int).Neg(t.Int).String() + ")")
		} else {
			b.WriteString(t.Int.String())
		}
	case "true", "false":
		b.WriteString(t.Op)
	case "var":
		b.WriteString(symName(t.Name))
	case "seq.empty":
		b.WriteString("(as seq.empty " + t.Sort.str + ")")
	case "constarr":
		b.WriteString("((as const " + t.Sort.str + ") ")
		printTerm(b, t.Args[0], names)
		b.WriteString(")")
	case "forall", "exists":
		b.WriteString("(" + t.Op + " (")
		for _, q := range t.Quant {
			b.WriteString("(" + symName(q.Name) + " " + q.Sort.str + ")")
		}
		b.WriteString(") ")
		if len(t.Pats) > 0 {
			b.WriteString("(! ")
		}
		printTerm(b, t.Args[0], names)
		for _, p := range t.Pats {
			b.WriteString(" :pattern (")
			for i, x := range p {
				if i > 0 {
					b.WriteByte(' ')
				}
				printTerm(b, x, names)
			}
			b.WriteString(")")
		}
		if len(t.Pats) > 0 {
			b.WriteString(")")
		}
		b.WriteString(")")
	default:
		op := t.Op
		if op == "app" || op == "ctor" || op == "sel" {
			op = symName(t.Name)
		}
		if len(t.Args) == 0 {
			b.WriteString(op)
			return
		}
		b.WriteString("(" + op)
		for _, a := range t.Args {
			b.WriteByte(' ')
			printTerm(b, a, names)
		}
		b.WriteString(")")
	}
}

// Script renders a satisfiability query for the conjunction of asserts.
// defs: extra top-level definitions (define-fun / define-fun-rec text) to include.
type DefFun struct {
	Name   string
	Params []*Term
	Res    *Sort
	Body   *Term
}

type Script struct {
	DefFuns []*DefFun
	Logic   string
	Asserts []*Term
	Named   []string // optional comments per assert
	Defs    []string
	GetVals []*Term
	Axioms  []*Term
}

func containsBound(t *Term, bound map[int]bool, memo map[int]bool) bool {
	if v, ok := memo[t.id]; ok {
		return v
	}
	r := false
	if bound[t.id] {
		r = true
	}
	for _, a := range t.Args {
		if containsBound(a, bound, memo) {
			r = true
		}
	}
	memo[t.id] = r
	return r
}

func (s *Script) Render() string {
	var b strings.Builder
	b.WriteString("(set-option :produce-models true)\n")
	if s.Logic != "" {
		b.WriteString("(set-logic " + s.Logic + ")\n")
	}
	// collect symbols
	vars := map[string]*Term{}
	ufs := map[string]bool{}
	sorts := map[string]bool{}
	datas := map[string]bool{}
	seen := map[int]bool{}
	parents := map[int]int{}
	var order []*Term
	bound := map[int]bool{}
	var addSort func(x *Sort)
	addSort = func(x *Sort) {
		switch x.Kind {
		case KUnint:
			sorts[x.Name] = true
		case KData:
			if !datas[x.Name] {
				datas[x.Name] = true
				for _, fs := range DataDefs[x.Name].Sorts {
					addSort(fs)
				}
			}
		case KSeq, KArr:
			for _, a := range x.Args {
				addSort(a)
			}
		}
	}
	var walk func(t *Term)
	walk = func(t *Term) {
		parents[t.id]++
		if seen[t.id] {
			return
		}
		seen[t.id] = true
		addSort(t.Sort)
		for _, q := range t.Quant {
			bound[q.id] = true
			addSort(q.Sort)
		}
		for _, a := range t.Args {
			walk(a)
		}
		for _, p := range t.Pats {
			for _, x := range p {
				walk(x)
			}
		}
		switch t.Op {
		case "var":
			if !bound[t.id] {
				vars[t.Name] = t
			}
		case "app":
			ufs[t.Name] = true
		}
		order = append(order, t)
	}
	all := append(append([]*Term{}, s.Axioms...), s.Asserts...)
	all = append(all, s.GetVals...)
	for _, a := range all {
		walk(a)
	}
	// function constants denote distinct functions
	var fnConsts []*Term
	for _, t := range order {
		if t.Op == "var" && t.Sort == Fn && (strings.HasPrefix(t.Name, "fn$")) && !bound[t.id] {
			fnConsts = append(fnConsts, t)
		}
	}
	// recursive spec-function definitions that are actually used (transitively)
	var usedDefs []*DefFun
	usedDef := map[string]bool{}
	for changed := true; changed; {
		changed = false
		for _, d := range s.DefFuns {
			if !usedDef[d.Name] && ufs[d.Name] {
				usedDef[d.Name] = true
				usedDefs = append(usedDefs, d)
				for _, p := range d.Params {
					bound[p.id] = true
					addSort(p.Sort)
				}
				addSort(d.Res)
				walk(d.Body)
				changed = true
			}
		}
	}
	// ground axioms contributed per application term (e.g. interior references are non-nil and injective)
	axioms := append([]*Term{}, s.Axioms...)
	for _, t := range append([]*Term{}, order...) {
		for _, f := range TermFacts[t.id] {
			axioms = append(axioms, f)
			walk(f)
		}
	}
	if GroundAxiomHook != nil {
		memo0 := map[int]bool{}
		for _, t := range append([]*Term{}, order...) {
			if t.Op == "app" && !containsBound(t, bound, memo0) {
				for _, ax := range GroundAxiomHook(t) {
					axioms = append(axioms, ax)
					walk(ax)
				}
			}
		}
	}
	for name := range ufs {
		d := UFs[name]
		for _, a := range d.Args {
			addSort(a)
		}
		addSort(d.Res)
	}
	var sn []string
	for n := range sorts {
		sn = append(sn, n)
	}
	sort.Strings(sn)
	for _, n := range sn {
		b.WriteString("(declare-sort " + n + " 0)\n")
	}
	for _, n := range DataOrder {
		if !datas[n] {
			continue
		}
		d := DataDefs[n]
		b.WriteString("(declare-datatypes ((" + n + " 0)) (((mk_" + n)
		for i, f := range d.Fields {
			b.WriteString(" (" + symName(f) + " " + d.Sorts[i].str + ")")
		}
		b.WriteString("))))\n")
	}
	var vn []string
	for n := range vars {
		if _, isUF := UFs[n]; isUF && len(UFs[n].Args) > 0 {
			continue
		}
		vn = append(vn, n)
	}
	sort.Strings(vn)
	for _, n := range vn {
		b.WriteString("(declare-fun " + symName(n) + " () " + vars[n].Sort.str + ")\n")
	}
	var un []string
	for n := range ufs {
		un = append(un, n)
	}
	sort.Strings(un)
	defined := map[string]bool{}
	for _, d := range s.Defs {
		// "(define-fun name" / "(define-fun-rec name"
		f := strings.Fields(d)
		if len(f) >= 2 {
			defined[strings.Trim(f[1], "|")] = true
		}
	}
	for _, n := range un {
		if defined[n] || usedDef[n] {
			continue
		}
		d := UFs[n]
		b.WriteString("(declare-fun " + symName(n) + " (")
		for i, a := range d.Args {
			if i > 0 {
				b.WriteByte(' ')
			}
			b.WriteString(a.str)
		}
		b.WriteString(") " + d.Res.str + ")\n")
	}
	for _, d := range s.Defs {
		b.WriteString(d + "\n")
	}
	if len(usedDefs) > 0 {
		// one mutually-recursive block keeps ordering irrelevant
		b.WriteString("(define-funs-rec (")
		for _, d := range usedDefs {
			b.WriteString("(" + symName(d.Name) + " (")
			for _, p := range d.Params {
				b.WriteString("(" + symName(p.Name) + " " + p.Sort.str + ")")
			}
			b.WriteString(") " + d.Res.str + ")")
		}
		b.WriteString(") (")
		for _, d := range usedDefs {
			printTerm(&b, d.Body, nil)
			b.WriteString("\n")
		}
		b.WriteString("))\n")
	}
	// shared subterm naming (only for terms without bound variables)
	names := map[int]string{}
	memo := map[int]bool{}
	n := 0
	for _, t := range order {
		if parents[t.id] >= 2 && len(t.Args) > 0 && !containsBound(t, bound, memo) && t.Op != "forall" && t.Op != "exists" {
			var tb strings.Builder
			printTerm(&tb, t, names)
			if tb.Len() < 40 {
				continue
			}
			n++
			nm := fmt.Sprintf("$t%d", n)
			b.WriteString("(define-fun " + nm + " () " + t.Sort.str + " " + tb.String() + ")\n")
			names[t.id] = nm
		}
	}
	// machine-range facts: declared ranges of constants and recorded ranges of typed reads
	for _, t := range order {
		var lo, hi *big.Int
		if t.Op == "var" && (t.Lo != nil || t.Hi != nil) && !bound[t.id] {
			lo, hi = t.Lo, t.Hi
		} else if rf, ok := rangeFacts[t.id]; ok && !containsBound(t, bound, memo) {
			lo, hi = rf[0], rf[1]
		} else if t.Op == "seq.len" && !containsBound(t, bound, memo) {
			lo, hi = nil, MaxLen
		} else {
			continue
		}
		var tb strings.Builder
		printTerm(&tb, t, names)
		if lo != nil {
			b.WriteString("(assert (<= " + IntB(lo).String() + " " + tb.String() + "))\n")
		}
		if hi != nil {
			b.WriteString("(assert (<= " + tb.String() + " " + IntB(hi).String() + "))\n")
		}
	}
	if len(fnConsts) >= 2 {
		b.WriteString("(assert (distinct")
		for _, t := range fnConsts {
			b.WriteString(" " + symName(t.Name))
		}
		b.WriteString("))\n")
	}
	for _, a := range axioms {
		b.WriteString("(assert ")
		printTerm(&b, a, names)
		b.WriteString(")\n")
	}
	for i, a := range s.Asserts {
		if i < len(s.Named) && s.Named[i] != "" {
			b.WriteString("; " + s.Named[i] + "\n")
		}
		b.WriteString("(assert ")
		printTerm(&b, a, names)
		b.WriteString(")\n")
	}
	b.WriteString("(check-sat)\n")
	if len(s.GetVals) > 0 {
		b.WriteString("(get-value (")
		for _, v := range s.GetVals {
			printTerm(&b, v, names)
			b.WriteByte(' ')
		}
		b.WriteString("))\n")
	} else {
		b.WriteString("(get-model)\n")
	}
	return b.String()
}
