package http2

// Replay for the C07 known finding (injected with go test -overlay, run with -race): a handler reads the
// connection's captured HTTP/2 frame data (metadata.HTTP2Frames.String) while the serve loop keeps capturing
// PRIORITY frames from the same client. The race detector reports the unsynchronised access.

import (
	"bytes"
	"context"
	"net"
	"net/http"
	"testing"
	"time"

	"github.com/wi1dcard/fingerproxy/pkg/metadata"
	"golang.org/x/net/http2/hpack"
)

func TestVerifC07Race(t *testing.T) {
	cli, srv := net.Pipe()
	ctx, md := metadata.NewContext(context.Background())
	started := make(chan struct{})
	stop := make(chan struct{})
	h := http.HandlerFunc(func(w http.ResponseWriter, r *http.Request) {
		close(started)
		for {
			select {
			case <-stop:
				return
			default:
				_ = md.HTTP2Frames.String()
			}
		}
	})
	go (&Server{}).ServeConn(srv, &ServeConnOpts{Context: ctx, Handler: h})
	go func() { // drain server output
		buf := make([]byte, 4096)
		for {
			if _, err := cli.Read(buf); err != nil {
				return
			}
		}
	}()
	cli.Write([]byte(ClientPreface))
	fr := NewFramer(cli, nil)
	fr.WriteSettings()
	var hb bytes.Buffer
	enc := hpack.NewEncoder(&hb)
	for _, f := range [][2]string{{":method", "GET"}, {":path", "/"}, {":scheme", "https"}, {":authority", "x"}} {
		enc.WriteField(hpack.HeaderField{Name: f[0], Value: f[1]})
	}
	fr.WriteHeaders(HeadersFrameParam{StreamID: 1, BlockFragment: hb.Bytes(), EndStream: true, EndHeaders: true})
	select {
	case <-started:
	case <-time.After(5 * time.Second):
		t.Fatal("handler not started")
	}
	for i := 0; i < 200; i++ {
		fr.WritePriority(uint32(3+2*i), PriorityParam{StreamDep: 0, Weight: uint8(i)})
	}
	time.Sleep(100 * time.Millisecond)
	close(stop)
	cli.Close()
}
