package hack

// Replay for the C04 defect repaired by the "fix:" commit recorded in known_findings.txt (injected with
// go test -overlay): the inner connection delivers the first bytes of the ClientHello record together with a
// temporary error (n > 0 && err != nil, which io.Reader allows and which crypto/tls survives for timeouts), then the
// rest. Before the fix the wrapper passed the bytes up but did not capture them, so the reported ClientHello was not
// the record the client sent.

import (
	"bytes"
	"net"
	"testing"
	"time"
)

type verifTimeoutErr struct{}

func (verifTimeoutErr) Error() string   { return "i/o timeout" }
func (verifTimeoutErr) Timeout() bool   { return true }
func (verifTimeoutErr) Temporary() bool { return true }

type verifChunkConn struct {
	net.Conn
	data  []byte
	first int
	calls int
}

func (c *verifChunkConn) Read(b []byte) (int, error) {
	c.calls++
	if c.calls == 1 {
		n := copy(b, c.data[:c.first])
		c.data = c.data[n:]
		return n, verifTimeoutErr{}
	}
	n := copy(b, c.data)
	c.data = c.data[n:]
	return n, nil
}
func (c *verifChunkConn) SetDeadline(time.Time) error { return nil }

func TestVerifC04DataWithError(t *testing.T) {
	rec := []byte{22, 3, 1, 0, 4, 1, 0, 0, 0}
	inner := &verifChunkConn{data: append([]byte{}, rec...), first: 3}
	c := NewHijackClientHelloConn(inner)
	var seen []byte
	buf := make([]byte, 64)
	for i := 0; i < 2; i++ {
		n, _ := c.Read(buf)
		seen = append(seen, buf[:n]...)
	}
	if !bytes.Equal(seen, rec) {
		t.Fatalf("layer above saw %v, client sent %v", seen, rec)
	}
	got, err := c.GetClientHello()
	if err != nil || !bytes.Equal(got, rec) {
		t.Fatalf("VERIF-REPLAY: VIOLATED captured ClientHello = %v, %v; the client sent (and the TLS layer saw) %v", got, err, rec)
	}
}
