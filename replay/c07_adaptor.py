#!/usr/bin/env python3
"""Replay adaptor for C07 guard obligations: runs the real HTTP/2 server with a handler that reads the captured
frame data while PRIORITY frames keep arriving, under the race detector. Exit 1 = race reproduced on the real code
in the function named by the obligation."""
import json, os, re, subprocess, sys
arg = json.loads(sys.argv[1])
o, outdir, repo = arg["obligation"], arg["outdir"], arg["repo"]
here = os.path.dirname(os.path.abspath(__file__))
ov = os.path.join(outdir, "overlay_c07.json")
json.dump({"Replace": {os.path.join(repo, "pkg/http2/verif_c07_race_test.go"): os.path.join(here, "c07_race_test.go")}}, open(ov, "w"))
env = dict(os.environ, GOFLAGS="-mod=mod", GOPROXY="off", GOSUMDB="off", GOTOOLCHAIN="local")
r = subprocess.run(["go", "test", "-race", "-overlay", ov, "-vet=off", "-count=1", "-timeout", "120s", "-run", "TestVerifC07Race", "./pkg/http2"],
                   cwd=repo, env=env, text=True, capture_output=True)
out = r.stdout + r.stderr
print(out[-3000:])
m = re.search(r"@([\w.]+\.\(?\*?\w+\)?\.\w+):", o["name"])
fn = o["name"].split("@")[1].split(":")[0].split(".")[-1] if "@" in o["name"] else ""
sys.exit(1 if "DATA RACE" in out and (fn == "" or fn in out) else 0)
