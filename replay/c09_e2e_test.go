package proxyserver_test

// Replay for C09 (injected into pkg/proxyserver with go test -overlay): drives the real
// listener -> TLS -> http/http2 server -> ReverseProxy chain on loopback and reports the
// forwarding headers the backend receives.

import (
	"context"
	"crypto/ecdsa"
	"crypto/elliptic"
	"crypto/rand"
	"crypto/tls"
	"crypto/x509"
	"crypto/x509/pkix"
	"io"
	"math/big"
	"net"
	"net/http"
	"net/http/httptest"
	"net/http/httputil"
	"net/url"
	"testing"
	"time"

	"github.com/wi1dcard/fingerproxy/pkg/http2"
	"github.com/wi1dcard/fingerproxy/pkg/proxyserver"
	"github.com/wi1dcard/fingerproxy/pkg/reverseproxy"
)

func verifSelfSigned(t *testing.T) tls.Certificate {
	key, err := ecdsa.GenerateKey(elliptic.P256(), rand.Reader)
	if err != nil {
		t.Fatal(err)
	}
	tmpl := &x509.Certificate{SerialNumber: big.NewInt(1), Subject: pkix.Name{CommonName: "localhost"},
		NotBefore: time.Now().Add(-time.Hour), NotAfter: time.Now().Add(time.Hour), DNSNames: []string{"localhost"}}
	der, err := x509.CreateCertificate(rand.Reader, tmpl, tmpl, &key.PublicKey, key)
	if err != nil {
		t.Fatal(err)
	}
	return tls.Certificate{Certificate: [][]byte{der}, PrivateKey: key}
}

func verifStart(t *testing.T) (addr string, got chan http.Header, stop func()) {
	got = make(chan http.Header, 8)
	backend := httptest.NewServer(http.HandlerFunc(func(w http.ResponseWriter, r *http.Request) {
		got <- r.Header.Clone()
		io.WriteString(w, "ok")
	}))
	u, _ := url.Parse(backend.URL)
	h := reverseproxy.NewHTTPHandler(u, &httputil.ReverseProxy{}, nil)
	cert := verifSelfSigned(t)
	ctx, cancel := context.WithCancel(context.Background())
	srv := proxyserver.NewServer(ctx, h, &tls.Config{Certificates: []tls.Certificate{cert}, NextProtos: []string{"h2", "http/1.1"}})
	ln, err := net.Listen("tcp", "127.0.0.1:0")
	if err != nil {
		t.Fatal(err)
	}
	go srv.Serve(ln)
	return ln.Addr().String(), got, func() { cancel(); backend.Close() }
}

func TestVerifC09H1Proto(t *testing.T) {
	addr, got, stop := verifStart(t)
	defer stop()
	c := &http.Client{Transport: &http.Transport{TLSClientConfig: &tls.Config{InsecureSkipVerify: true, NextProtos: []string{"http/1.1"}}}}
	req, _ := http.NewRequest("GET", "https://"+addr+"/x", nil)
	req.Header.Set("X-Forwarded-Proto", "gopher")
	resp, err := c.Do(req)
	if err != nil {
		t.Fatal(err)
	}
	resp.Body.Close()
	hd := <-got
	if v := hd.Values("X-Forwarded-Proto"); len(v) != 1 || v[0] != "https" {
		t.Fatalf("HTTP/1.1: backend saw X-Forwarded-Proto=%q, want [https]", v)
	}
}

func TestVerifC09H2SchemeHTTP(t *testing.T) {
	addr, got, stop := verifStart(t)
	defer stop()
	tr := &http2.Transport{TLSClientConfig: &tls.Config{InsecureSkipVerify: true, NextProtos: []string{"h2"}}}
	conn, err := tls.Dial("tcp", addr, tr.TLSClientConfig)
	if err != nil {
		t.Fatal(err)
	}
	cc, err := tr.NewClientConn(conn)
	if err != nil {
		t.Fatal(err)
	}
	// URL scheme http => ":scheme: http" on the TLS connection
	req, _ := http.NewRequest("GET", "http://"+addr+"/x", nil)
	resp, err := cc.RoundTrip(req)
	if err != nil {
		t.Fatal(err)
	}
	resp.Body.Close()
	hd := <-got
	if v := hd.Values("X-Forwarded-Proto"); len(v) != 1 || v[0] != "https" {
		t.Fatalf("HTTP/2 :scheme http: backend saw X-Forwarded-Proto=%q, want [https]", v)
	}
}
