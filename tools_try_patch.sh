#!/bin/bash
# usage: tools_try_patch.sh <patch> <prop> [-R]   -- apply patch to /repo, run govc for prop, revert
set -u
P=$1; PROP=$2; REV=${3:-}
if [ -n "$(git -C /repo status --porcelain --untracked-files=no)" ]; then echo "REFUSING: /repo has uncommitted tracked changes"; exit 4; fi
export GOFLAGS=-mod=mod GOPROXY=off GOSUMDB=off GOTOOLCHAIN=local
git -C /repo apply $REV "$P" || { echo "APPLY FAILED"; exit 3; }
/verif/bin/govc -repo /repo -spec /verif/contracts/stdlib.go -props $PROP -out /tmp/try.json 2>&1 | tail -${LINES_OUT:-12}
git -C /repo checkout -- .
