#!/usr/bin/env python3
"""Regenerates MANIFEST.json from props/*.json (one plan per claimed property)."""
import json, glob, os
V = os.path.dirname(os.path.dirname(os.path.abspath(__file__)))
plans = {}
for p in sorted(glob.glob(os.path.join(V, "props", "C*.json"))):
    plans[os.path.basename(p)[:-5]] = json.load(open(p))
na = json.load(open(os.path.join(V, "props", "not_applicable.json")))
hooks = json.load(open(os.path.join(V, "props", "hooks.json")))
checks = []
for pid, pl in plans.items():
    checks.append({
        "property_id": pid,
        "quick_cmd": "./check %s quick" % pid,
        "thorough_cmd": "./check %s thorough" % pid,
        "evidence_file": "/verif/evidence/%s.json" % pid,
        "replay_cmd_template": "./check --replay {path}",
        "engine": "govc",
        "level_claimed": {"category": pl.get("level", "proof"), "text": pl["claim"], "design_ref": "DESIGN.md §2 " + pid},
        "level_note": pl["level_note"],
        "technique": pl.get("technique", "contract-based deductive verification: requires/ensures/invariants on the real functions, VCs generated from go/ssa, discharged by z3/cvc5"),
    })
m = {
    "version": 1,
    "setup_cmd": "cd /verif/govc && GOFLAGS=-mod=mod GOPROXY=off GOSUMDB=off GOTOOLCHAIN=local go build -o /verif/bin/govc ./cmd/govc",
    "hooks": hooks,
    "engines": [{"name": "govc", "path": "/verif/govc", "serves_properties": sorted(plans),
                 "kind_free_text": "own contract-based deductive verifier: symbolic execution of naive-form go/ssa per function under contract (callee = its contract), loops cut at invariants, obligations discharged by z3 4.8.12 / z3 5.1.0 / cvc5 1.0 raced; structural back end for defer/recover/lock-set clauses"}],
    "checks": checks,
    "not_applicable": na,
    "notes": "Contracts live in /repo/**/verif_contracts*.go (comment-only, build tag verif) and /verif/contracts/stdlib.go (assumed contracts of dependencies). See DESIGN.md.",
}
json.dump(m, open(os.path.join(V, "MANIFEST.json"), "w"), indent=1)
print("MANIFEST.json: %d checks, %d not applicable" % (len(checks), len(na)))
