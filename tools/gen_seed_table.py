#!/usr/bin/env python3
"""Regenerate the seeded-change table of DESIGN.md §11.6 from seeded/RESULTS.tsv and the seeds' meta.json."""
import json, os, re, sys
V = os.path.dirname(os.path.dirname(os.path.abspath(__file__)))
rows = {}
for line in open(os.path.join(V, "seeded", "RESULTS.tsv")):
    f = line.rstrip("\n").split("\t")
    if f[0] == "seed" or len(f) < 4:
        continue
    rows[f[0]] = f
out = ["| seed | file(s) changed | detected | first failing obligation |", "|---|---|---|---|"]
nd = 0
def key(s):
    m = re.match(r"C(\d+)-m(\d+)", s)
    return (int(m.group(1)), int(m.group(2)))
seeds = sorted([d for d in os.listdir(os.path.join(V, "seeded")) if re.match(r"C\d+-m\d+$", d)], key=key)
for s in seeds:
    meta = json.load(open(os.path.join(V, "seeded", s, "meta.json")))
    files = ", ".join(os.path.basename(x) for x in meta.get("files_touched", []))
    r = rows.get(s)
    if not r:
        out.append("| %s | %s | not run | |" % (s, files)); continue
    viol = [v for v in r[3].split(";") if v.strip()]
    first = viol[0].strip() if viol else ""
    replayed = first and "no-failing-input-found" not in first
    first = first.replace(" no-failing-input-found", "")
    extra = " (+%d)" % (len(viol) - 1) if len(viol) > 1 else ""
    cell = "`%s%s`" % (first, extra) if first else ""
    if replayed and not first.startswith(("sched_", "hpack_", "databuffer_")) and "guard:" not in first and "structural" not in first and "wake:" not in first and "subset:" not in first:
        cell += " — replayed on the real code"
    if r[2] == "yes":
        nd += 1
    out.append("| %s | %s | %s | %s |" % (s, files, r[2], cell))
table = "\n".join(out)
p = os.path.join(V, "DESIGN.md")
d = open(p).read()
m = re.search(r"\| seed \| file\(s\) changed \| detected \| first failing obligation \|\n(\|.*\n)+", d)
d = d[:m.start()] + table + "\n" + d[m.end():]
open(p, "w").write(d)
print("%d seeds, %d detected" % (len(seeds), nd))
