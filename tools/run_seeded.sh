#!/bin/bash
# run_seeded.sh [ids...]: apply each seeded change to /repo, run the quick check of its property, revert; write seeded/RESULTS.tsv
set -u
cd /verif
if [ -n "$(git -C /repo status --porcelain --untracked-files=no)" ]; then echo "REFUSING: /repo has uncommitted tracked changes"; exit 4; fi
OUT=seeded/RESULTS.tsv
[ -f $OUT ] || echo -e "seed\tproperty\tdetected\tviolations\twall_s\tobligations" > $OUT
for d in ${@:-$(ls -d seeded/C*-m* | xargs -n1 basename)}; do
  id=${d%%-*}
  [ -f props/$id.json ] || { echo -e "$d\t$id\tno-check\t-\t-\t-" >> $OUT; continue; }
  git -C /repo apply /verif/seeded/$d/patch.diff || { echo -e "$d\t$id\tapply-failed\t-\t-\t-" >> $OUT; continue; }
  t0=$(date +%s)
  res=$(./check $id quick 2>&1)
  rc=$?
  t1=$(date +%s)
  git -C /repo checkout -- .
  git -C /verif checkout -- evidence/$id.json 2>/dev/null   # evidence must come from the unchanged tree
  viol=$(echo "$res" | grep "^VIOLATION" | sed 's/.*obligation=//' | tr '\n' ';' | cut -c1-300)
  det=no; [ $rc -eq 1 ] && det=yes; [ $rc -ge 2 ] && det=broken
  sed -i "/^$d\t/d" $OUT
  echo -e "$d\t$id\t$det\t$viol\t$((t1-t0))\t$(echo "$res" | tail -1 | cut -c1-80)" >> $OUT
  echo "$d $det"
done
