#!/bin/bash
# confirm_seed2.sh <srcdir under /tmp/wt-out, e.g. C19b/m1> <dest name, e.g. C19-m3>: like confirm_seed.sh with explicit names
set -u
SRC=/tmp/wt-out/$1; NAME=$2; DST=/verif/seeded/$NAME; WT=/tmp/seedchk/$NAME
export GOFLAGS=-mod=mod GOPROXY=off GOSUMDB=off GOTOOLCHAIN=local
mkdir -p /tmp/seedchk $DST
rm -rf $WT; git -C /repo worktree add -q --detach $WT HEAD || exit 3
DEMODIR=$(python3 -c "import json;print(json.load(open('$SRC/meta.json'))['demo_dir'])")
cd $WT
log=$DST/confirm.log; : > $log
res() { echo "$1" | tee -a $log; }
cp $SRC/verif_demo_test.go $WT/$DEMODIR/verif_demo_test.go
if go test -vet=off -count=1 -timeout 120s -run 'TestVerifDemo$' ./$DEMODIR >> $log 2>&1; then res "demo_on_clean=PASS"; CLEAN=1; else res "demo_on_clean=FAIL"; CLEAN=0; fi
APPLY=1; git apply $SRC/patch.diff >> $log 2>&1 || { res "apply=FAIL"; APPLY=0; }
if go build ./... >> $log 2>&1; then res "build=OK"; BUILD=1; else res "build=FAIL"; BUILD=0; fi
if go test -vet=off -count=1 -timeout 120s -run 'TestVerifDemo$' ./$DEMODIR >> $log 2>&1; then res "demo_on_mutant=PASS"; MUT=0; else res "demo_on_mutant=FAIL"; MUT=1; fi
rm -f $WT/$DEMODIR/verif_demo_test.go
go test -vet=off -count=1 -timeout 25m ./... > $DST/suite.log 2>&1
FAILS=$(grep -E "^--- FAIL" $DST/suite.log | sort | tr '\n' ' ')
res "suite_failures=$FAILS"
EXP="--- FAIL: TestAppendForwardHeader (0.00s) --- FAIL: TestInjectHeader (0.00s) --- FAIL: TestPreserveHost (0.00s) "
SUITE=0; [ "$(echo $FAILS | sed 's/([0-9.]*s)//g')" = "$(echo $EXP | sed 's/([0-9.]*s)//g')" ] && SUITE=1
res "suite_ok=$SUITE"
cp $SRC/patch.diff $DST/patch.diff; cp $SRC/verif_demo_test.go $DST/verif_demo_test.go
python3 - <<PY
import json
m=json.load(open('$SRC/meta.json'))
m['property']='$NAME'.split('-')[0]
m['confirmed']={'demo_passes_on_unchanged_tree':bool($CLEAN),'patch_applies':bool($APPLY),'builds_with_change':bool($BUILD),'demo_fails_with_change':bool($MUT),'existing_suite_still_passes_with_change':bool($SUITE),
 'ran':["go test -run TestVerifDemo ./$DEMODIR (unchanged tree, then with patch applied)","go build ./...","go test -vet=off -count=1 ./... with patch applied"]}
m['valid']=bool($CLEAN and $APPLY and $BUILD and $MUT and $SUITE)
json.dump(m,open('$DST/meta.json','w'),indent=1)
print('$NAME valid=',m['valid'])
PY
cd /; git -C /repo worktree remove --force $WT
