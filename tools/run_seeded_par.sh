#!/bin/bash
# run_seeded_par.sh <workers> [seed names...]: like run_seeded.sh, but each worker applies the seeded changes in its OWN
# scratch worktree of /repo (VERIF_REPO) and workers are partitioned by property, so /repo itself is never touched and
# no two runs share an output directory. Evidence files are restored afterwards (they must come from the unchanged tree).
set -u
cd /verif
N=${1:-3}; shift || true
SEEDS=${@:-$(ls -d seeded/C*-m* | xargs -n1 basename)}
OUT=seeded/RESULTS.tsv
[ -f $OUT ] || echo -e "seed\tproperty\tdetected\tviolations\twall_s\tobligations" > $OUT
mkdir -p /tmp/sw
props=$(for d in $SEEDS; do echo ${d%%-*}; done | sort -u)
i=0
for p in $props; do w=$((i % N)); echo $p >> /tmp/sw/plan.$w.$$; i=$((i+1)); done
worker() {
  w=$1; WT=/tmp/sw/w$w.$$
  git -C /repo worktree add -q --detach $WT HEAD || exit 3
  for id in $(cat /tmp/sw/plan.$w.$$); do
    [ -f props/$id.json ] || continue
    for d in $SEEDS; do
      [ "${d%%-*}" = "$id" ] || continue
      git -C $WT apply /verif/seeded/$d/patch.diff || { echo -e "$d\t$id\tapply-failed\t-\t-\t-" >> $OUT.$w.$$; continue; }
      t0=$(date +%s)
      res=$(VERIF_REPO=$WT ./check $id quick 2>&1); rc=$?
      t1=$(date +%s)
      git -C $WT checkout -- .
      viol=$(echo "$res" | grep "^VIOLATION" | sed 's/.*obligation=//' | tr '\n' ';' | cut -c1-300)
      det=no; [ $rc -eq 1 ] && det=yes; [ $rc -ge 2 ] && det=broken
      echo -e "$d\t$id\t$det\t$viol\t$((t1-t0))\t$(echo "$res" | tail -1 | cut -c1-80)" >> $OUT.$w.$$
      echo "$d $det"
    done
    git -C /verif checkout -- evidence/$id.json 2>/dev/null
  done
  git -C /repo worktree remove --force $WT
}
for w in $(seq 0 $((N-1))); do [ -f /tmp/sw/plan.$w.$$ ] && worker $w & done
wait
for w in $(seq 0 $((N-1))); do
  [ -f $OUT.$w.$$ ] || continue
  while IFS= read -r line; do s=$(echo "$line" | cut -f1); sed -i "/^$s\t/d" $OUT; echo "$line" >> $OUT; done < $OUT.$w.$$
  rm -f $OUT.$w.$$ /tmp/sw/plan.$w.$$
done
git -C /repo worktree prune
